#!/bin/bash
# idempotent offline bootstrap of the overlay venv (z3 + cvc5 wheels on top of /venv, /repo importable)
set -e
HERE="$(cd "$(dirname "${BASH_SOURCE[0]}")" && pwd)"
V="$HERE/.venv"
if [ ! -x "$V/bin/python" ] || ! "$V/bin/python" -c "import z3, numpy, PyMatterSim" 2>/dev/null; then
  rm -rf "$V"
  /venv/bin/python -m venv "$V"
  printf '/venv/lib/python3.12/site-packages\n/repo\n' > "$V/lib/python3.12/site-packages/overlay.pth"
  PIP_NO_INDEX=1 "$V/bin/pip" install -q --no-index --find-links /opt/veriftools/wheels z3-solver cvc5 jsonschema
fi
echo "venv ready: $V"
