#!/bin/bash
# run every registered check (quick or given tier) sequentially and print one summary line each
cd "$(dirname "$0")/.."
TIER=${1:-quick}
for id in $(python3 -c "import json;print(' '.join(c['property_id'] for c in json.load(open('MANIFEST.json'))['checks']))"); do
  s=$(date +%s)
  out=$(./check $id --tier $TIER 2>&1); rc=$?
  echo "rc=$rc $(( $(date +%s) - s ))s $(echo "$out" | tail -1)"
done
