#!/usr/bin/env python3
"""copy confirmed seeded changes (candidate dir + tools/seedtest.py result) into /verif/seeded/<name>/ and print the table
for DESIGN.md.  A candidate is kept only if its patch applied, its demonstration passed on the clean tree and failed on the
patched one, and the test suite outcome was unchanged (all confirmed by tools/seedtest.py in a scratch worktree)."""
import glob
import json
import os
import shutil
import sys

ROOT = os.path.dirname(os.path.dirname(os.path.abspath(__file__)))
CAND = sys.argv[1] if len(sys.argv) > 1 else "/tmp/cand"
RES = sys.argv[2] if len(sys.argv) > 2 else "/tmp/seedwt/results"


# what was added to a check because of a seeded change (the properties are unchanged).  OBSERVED_MISS: the check ran against the
# change and exited 0 (or 3) before the addition; for the others the addition was made on reading the change's description,
# before the first run against it.
OBSERVED_MISS = {"C03_b", "C04_a", "C05_a", "C07_b", "C09_a", "C09_b", "C11_a", "C11_b", "C12_b", "C14_a", "C16_b", "C18_a",
                 "C04_c", "C06_c", "C14_d", "C19_d", "C20_a"}
STRENGTHENED = {
    "C03_b": "C03 quick tier gained a triclinic configuration; the np.linalg.solve facade was missing (harness error before)",
    "C04_a": "C04: two-frame configurations for every species count (ternary and up were single-frame)",
    "C05_a": "C05: trajectories whose cell changes between frames",
    "C07_b": "SAngle + k*pi was not modelled (harness error in C08's delegated branch); now decided by C08",
    "C09_a": "C09: per-frame neighbour topologies, two-frame s_ij configuration with a dropping coordination number",
    "C09_b": "as C07_b (same site): C08 delegated branch",
    "C11_a": "C11: configuration with a mixed periodicity mask",
    "C11_b": "C11: masses map inserted in descending type order; np.fromiter facade",
    "C12_b": "C12: sequences of queries on one shared PairInteractions object",
    "C13_a": "C13 quick tier gained triclinic conditional g(r) configurations",
    "C13_b": "C13: complex scalar field for conditional S(q)",
    "C14_a": "C14: documented decimal time steps (exact rational in the symbolic run, double in the replay) - float-level effect, "
             "caught by the replay of the path model, not by the solver",
    "C16_b": "C16: second frame with a shifted box origin in the blurring harness",
    "C17_a": "C17: two-frame pair-entropy configuration with per-id types exchanged between frames",
    "C17_b": "C17: periodic triclinic tetrahedral-order configuration (with solver-checked rint pinning)",
    "C18_a": "C18: VolumeMatrix with unwrapped coordinates outside the primary cell",
    "C18_b": "C18: integer-valued float64 wave-vector array handed to conditional_sq twice",
    "C19_a": "C19: type maps whose values are again keys, and a pure swap",
    "C19_b": "C19: frames sharing one int64 typeid array; converting the same sequence twice",
    # second round (one change per property, different mechanism and site from the first round)
    "C04_c": "C18: the same gr / sq object is asked for its results a second time (the first answer must not alter the object)",
    "C06_c": "C07: wrapped relaxation with an independent image vector per particle *and frame*, in a triclinic cell",
    "C10_c": "C10: sheared box - same edge lengths, tilt changing between frames",
    "C13_c": "C13: machine-integer capacity side query (casts taken from the AST, z3 decides whether N-1 counts fit, dense-cluster replay)",
    "C16_c": "C16: rank-2 (non-symmetric tensor) property in the blurring harness",
    "C17_c": "C17: nematic tensor asked again from the same object after the neighbour file was regenerated under the same name",
    # third round
    "C08_d": "C08: dispatcher evaluated exactly at the poles (closed polar angle, every azimuth)",
    "C14_d": "np.einsum facade was missing (harness error before); now decided by C14's tensor / uneven configurations",
    "C18_d": "C18: Dynamics.sq4 asked twice with different wave-number ranges on one object, compared with a fresh object",
    "C19_d": "C19: structural harness for read_lammpslog (row counts per section are integer symbols forked by the engine) - "
             "the log reader was outside the claim before",
    "C20_a": "C20: the harness indexed the stub's list of boxes (harness error when only one box is built); box lengths per frame are now "
             "checked on the returned objects, in the symbolic run and on the real library's boxes in the replay",
    "C20_b": "C20: the written neighbour file is also read back with Nmax smaller than a coordination number (same reader site as C05_b)",
    "C02_d": "np.allclose / np.isclose facade by documented semantics (added while this change was running; not needed for the verdict)",
}


def needs(notes):
    """the 'what it needs to manifest' part of the author's notes: the section under a heading that says so, else the lines
    that mention it"""
    txt = open(notes).read() if os.path.exists(notes) else ""
    lines = txt.splitlines()
    keys = ("manifest", "trigger", "needs", "needed", "requires")
    out, take = [], False
    for line in lines:
        l = line.strip()
        if l.startswith("#"):
            take = any(k in l.lower() for k in keys)
            continue
        if take and l:
            out.append(l.lstrip("-* "))
    if not out:
        out = [l.strip().lstrip("-* ") for l in lines if any(k in l.lower() for k in keys)]
    return " ".join(out)[:900]


def main():
    rows = []
    for f in sorted(glob.glob(os.path.join(RES, "*.json"))):
        r = json.load(open(f))
        name = r["name"]
        prop = r["property"]
        cand = os.path.join(CAND, name.split("_", 1)[1]) if not os.path.isdir(os.path.join(CAND, name)) else os.path.join(CAND, name)
        if not os.path.isdir(cand):
            cand = r.get("candidate", cand)
        ok = r.get("patch_applies") and r.get("demo_ok") and r.get("tests_unchanged")
        short = os.path.basename(os.path.normpath(cand))
        if not ok:
            rows.append((short, prop, "not kept", f"patch={r.get('patch_applies')} demo={r.get('demo_ok')} tests={r.get('tests_unchanged')}", "", ""))
            continue
        dst = os.path.join(ROOT, "seeded", short)
        os.makedirs(dst, exist_ok=True)
        for fn in ("patch.diff", "demo.py", "notes.md"):
            if os.path.exists(os.path.join(cand, fn)):
                shutil.copy(os.path.join(cand, fn), os.path.join(dst, fn))
        checks = {}
        for p, c in r.get("checks", {}).items():
            checks[p] = dict(exit_code=c["rc"], violation_lines=c["violations"], first_violation=(c.get("detail") or [""])[0].strip(),
                             wall_s=c.get("wall_s"))
        caught = sorted(p for p, c in checks.items() if c["exit_code"] == 1 and c["violation_lines"] > 0)
        meta = dict(
            name=short, breaks_property=prop,
            files_changed=r.get("files_changed"),
            needs_to_manifest=needs(os.path.join(cand, "notes.md")),
            confirmed=dict(
                how="tools/seedtest.py in a scratch git worktree of /repo (removed afterwards): git apply patch.diff; demo.py on a "
                    "clean worktree and on the patched one; full pytest suite on the patched worktree compared test by test with "
                    "the suite on a clean worktree; ./check <ID> --tier quick with VERIF_REPO pointing at the patched worktree",
                repo_head=r.get("head"), patch_applies=True, demo_exit_clean=r.get("demo_clean_rc"), demo_exit_patched=r.get("demo_patched_rc"),
                demo_output_patched=(r.get("demo_patched_tail") or "")[-400:],
                tests=r.get("tests")),
            checks_run=checks, detected_by=caught, detected=bool(caught),
            strengthening=STRENGTHENED.get(short, "none needed: caught by the check as first built"),
            missed_before_strengthening=(short in OBSERVED_MISS))
        json.dump(meta, open(os.path.join(dst, "meta.json"), "w"), indent=1)
        rows.append((short, prop, "kept", ", ".join(caught) if caught else "MISSED", ("after a miss" if short in OBSERVED_MISS else "before first run") if short in STRENGTHENED else "",
                     (checks.get(caught[0], {}) if caught else {}).get("first_violation", "")[:110]))
    print("| change | property | kept | caught by | check strengthened first | first violated obligation |")
    print("|---|---|---|---|---|---|")
    for r in rows:
        print("| " + " | ".join(str(x) for x in r) + " |")


if __name__ == "__main__":
    main()
