#!/usr/bin/env python3
"""copy confirmed seeded changes (candidate dir + tools/seedtest.py result) into /verif/seeded/<name>/ and print the table
for DESIGN.md.  A candidate is kept only if its patch applied, its demonstration passed on the clean tree and failed on the
patched one, and the test suite outcome was unchanged (all confirmed by tools/seedtest.py in a scratch worktree)."""
import glob
import json
import os
import shutil
import sys

ROOT = os.path.dirname(os.path.dirname(os.path.abspath(__file__)))
CAND = sys.argv[1] if len(sys.argv) > 1 else "/tmp/cand"
RES = sys.argv[2] if len(sys.argv) > 2 else "/tmp/seedwt/results"


def needs(notes):
    """first 'needs / trigger / manifest' paragraph of the author's notes, shortened"""
    txt = open(notes).read() if os.path.exists(notes) else ""
    keep = []
    for line in txt.splitlines():
        l = line.strip()
        if any(k in l.lower() for k in ("manifest", "trigger", "needs", "only when", "only with", "requires")):
            keep.append(l.lstrip("-* "))
    return " ".join(keep)[:700]


def main():
    rows = []
    for f in sorted(glob.glob(os.path.join(RES, "*.json"))):
        r = json.load(open(f))
        name = r["name"]
        prop = r["property"]
        cand = os.path.join(CAND, name.split("_", 1)[1]) if not os.path.isdir(os.path.join(CAND, name)) else os.path.join(CAND, name)
        if not os.path.isdir(cand):
            cand = r.get("candidate", cand)
        ok = r.get("patch_applies") and r.get("demo_ok") and r.get("tests_unchanged")
        short = os.path.basename(os.path.normpath(cand))
        if not ok:
            rows.append((short, prop, "not kept", f"patch={r.get('patch_applies')} demo={r.get('demo_ok')} tests={r.get('tests_unchanged')}", ""))
            continue
        dst = os.path.join(ROOT, "seeded", short)
        os.makedirs(dst, exist_ok=True)
        for fn in ("patch.diff", "demo.py", "notes.md"):
            if os.path.exists(os.path.join(cand, fn)):
                shutil.copy(os.path.join(cand, fn), os.path.join(dst, fn))
        checks = {}
        for p, c in r.get("checks", {}).items():
            checks[p] = dict(exit_code=c["rc"], violation_lines=c["violations"], first_violation=(c.get("detail") or [""])[0].strip(),
                             wall_s=c.get("wall_s"))
        caught = sorted(p for p, c in checks.items() if c["exit_code"] == 1 and c["violation_lines"] > 0)
        meta = dict(
            name=short, breaks_property=prop,
            files_changed=r.get("files_changed"),
            needs_to_manifest=needs(os.path.join(cand, "notes.md")),
            confirmed=dict(
                how="tools/seedtest.py in a scratch git worktree of /repo (removed afterwards): git apply patch.diff; demo.py on a "
                    "clean worktree and on the patched one; full pytest suite on the patched worktree compared test by test with "
                    "the suite on a clean worktree; ./check <ID> --tier quick with VERIF_REPO pointing at the patched worktree",
                repo_head=r.get("head"), patch_applies=True, demo_exit_clean=r.get("demo_clean_rc"), demo_exit_patched=r.get("demo_patched_rc"),
                demo_output_patched=(r.get("demo_patched_tail") or "")[-400:],
                tests=r.get("tests")),
            checks_run=checks, detected_by=caught, detected=bool(caught))
        json.dump(meta, open(os.path.join(dst, "meta.json"), "w"), indent=1)
        rows.append((short, prop, "kept", ", ".join(caught) if caught else "MISSED", (checks.get(caught[0], {}) if caught else {}).get("first_violation", "")[:110]))
    print("| change | property | kept | caught by | first violated obligation |")
    print("|---|---|---|---|---|")
    for r in rows:
        print("| " + " | ".join(str(x) for x in r) + " |")


if __name__ == "__main__":
    main()
