"""debug helper: run one (harness, config index) serially: tools/one.py C05 lists 0 [tier] [budget_s]"""
import sys, time, json
sys.path.insert(0, '/verif')
import logging; logging.disable(logging.WARNING)
from symx.engine import Engine
from symx.run import load
prop, hname, idx = sys.argv[1], sys.argv[2], int(sys.argv[3])
mod = load(prop)
h = next(x for x in mod.HARNESSES if x.name == hname)
cfgs = h.configs(sys.argv[4] if len(sys.argv) > 4 else "quick", 0)
cfg = cfgs[idx]
print(len(cfgs), cfg)
o = dict(h.opts); o['budget_s'] = float(sys.argv[5]) if len(sys.argv) > 5 else 120
e = Engine(prop, hname, h.fn, cfg, o)
t = time.time()
r = e.explore()
print(json.dumps(r['stats']), time.time() - t)
for x in r['errors'][:3]:
    print(x.get('kind'), x.get('msg')); print(x.get('tb'))
for v in r['violations'][:5]:
    print(v)
print(r['undecided'][:5])
