#!/usr/bin/env python3
"""Confirm a seeded change and run the registered check(s) against it, in a scratch worktree (never in /repo).

usage: tools/seedtest.py <candidate-dir> <PROP> [--name NAME] [--no-tests] [--tier quick] [--props C02,C03]

<candidate-dir> holds patch.diff and demo.py.  Steps (each recorded in the JSON printed/written at the end):
  1. scratch worktree of /repo HEAD under /tmp/seedwt/<name>, patch applied (git apply)
  2. demo.py on a clean worktree (expect exit 0) and on the patched one (expect exit != 0)
  3. the existing test suite on the patched worktree: set of passing tests must equal the baseline set
     (baseline = same command on a clean worktree, cached in /tmp/seedwt/baseline_pass.json)
  4. ./check <PROP> --tier quick with VERIF_REPO=<patched worktree> VERIF_OUT=/tmp/seedwt/out/<name>: detected iff exit 1 with
     a VIOLATION line
  5. worktree removed
"""
import argparse
import json
import os
import re
import shutil
import subprocess
import sys
import time
import xml.etree.ElementTree as ET

ROOT = os.path.dirname(os.path.dirname(os.path.abspath(__file__)))
BASE = "/tmp/seedwt"
PY = "/venv/bin/python"


def sh(cmd, cwd=None, env=None, timeout=None):
    p = subprocess.run(cmd, cwd=cwd, env=env, shell=isinstance(cmd, str), capture_output=True, text=True, timeout=timeout)
    return p.returncode, p.stdout + p.stderr


def worktree(path):
    if os.path.exists(path):
        sh(["git", "-C", "/repo", "worktree", "remove", "--force", path])
        shutil.rmtree(path, ignore_errors=True)
    rc, out = sh(["git", "-C", "/repo", "worktree", "add", "--detach", path, "HEAD"])
    if rc:
        raise SystemExit(out)


def drop(path):
    sh(["git", "-C", "/repo", "worktree", "remove", "--force", path])
    shutil.rmtree(path, ignore_errors=True)
    sh(["git", "-C", "/repo", "worktree", "prune"])


def run_tests(wt):
    xml = os.path.join(wt, "_junit.xml")
    env = dict(os.environ, PYTHONPATH=wt, PYTHONDONTWRITEBYTECODE="1")
    t = time.time()
    rc, out = sh([PY, "-m", "pytest", "-q", "-p", "no:cacheprovider", "--timeout=900", "--continue-on-collection-errors",
                  f"--junitxml={xml}"], cwd=wt, env=env, timeout=3600)
    passed, failed = set(), set()
    if os.path.exists(xml):
        for tc in ET.parse(xml).getroot().iter("testcase"):
            name = f"{tc.get('classname')}::{tc.get('name')}"
            if any(ch.tag in ("failure", "error") for ch in tc):
                failed.add(name)
            elif any(ch.tag == "skipped" for ch in tc):
                pass
            else:
                passed.add(name)
    return sorted(passed), sorted(failed), round(time.time() - t, 1)


def baseline():
    p = os.path.join(BASE, "baseline_pass.json")
    head = sh(["git", "-C", "/repo", "rev-parse", "HEAD"])[1].strip()
    if os.path.exists(p):
        d = json.load(open(p))
        if d.get("head") == head:
            return d
    wt = os.path.join(BASE, f"_baseline_{os.getpid()}")      # several seedtest processes may need the baseline at once
    worktree(wt)
    try:
        passed, failed, wall = run_tests(wt)
    finally:
        drop(wt)
    d = dict(head=head, passed=passed, failed=failed, wall_s=wall)
    if len(passed) >= 30:          # never cache a broken run
        json.dump(d, open(p + f".{os.getpid()}", "w"), indent=1)
        os.replace(p + f".{os.getpid()}", p)
    return d


def main():
    ap = argparse.ArgumentParser()
    ap.add_argument("cand")
    ap.add_argument("prop")
    ap.add_argument("--name")
    ap.add_argument("--no-tests", action="store_true")
    ap.add_argument("--no-check", action="store_true")
    ap.add_argument("--tier", default="quick")
    ap.add_argument("--props", help="comma separated list of checks to run (default: the property itself)")
    a = ap.parse_args()
    os.makedirs(BASE, exist_ok=True)
    name = a.name or (a.prop + "_" + os.path.basename(os.path.normpath(a.cand)))
    res = dict(name=name, property=a.prop, candidate=a.cand, head=sh(["git", "-C", "/repo", "rev-parse", "HEAD"])[1].strip())
    patch = os.path.join(a.cand, "patch.diff")
    demo = os.path.join(a.cand, "demo.py")
    clean = os.path.join(BASE, name + "_clean")
    wt = os.path.join(BASE, name)
    try:
        worktree(wt)
        rc, out = sh(["git", "apply", patch], cwd=wt)
        res["patch_applies"] = rc == 0
        if rc:
            res["apply_output"] = out[-800:]
            print(json.dumps(res, indent=1))
            return 2
        res["files_changed"] = sh(["git", "diff", "--stat"], cwd=wt)[1].strip().splitlines()
        if os.path.exists(demo):
            worktree(clean)
            env = dict(os.environ, PYTHONDONTWRITEBYTECODE="1")
            rc0, o0 = sh([PY, demo], cwd=clean, env=dict(env, PYTHONPATH=clean), timeout=1800)
            rc1, o1 = sh([PY, demo], cwd=wt, env=dict(env, PYTHONPATH=wt), timeout=1800)
            drop(clean)
            res["demo_clean_rc"], res["demo_patched_rc"] = rc0, rc1
            res["demo_clean_tail"], res["demo_patched_tail"] = o0[-300:], o1[-600:]
            res["demo_ok"] = rc0 == 0 and rc1 != 0
        if not a.no_check:
            res["checks"] = {}
            for prop in (a.props.split(",") if a.props else [a.prop]):
                outd = os.path.join(BASE, "out", name)
                os.makedirs(outd, exist_ok=True)
                env = dict(os.environ, VERIF_REPO=wt, VERIF_OUT=outd)
                t = time.time()
                rc, out = sh([os.path.join(ROOT, "check"), prop, "--tier", a.tier], cwd=ROOT, env=env, timeout=7200)
                viol = [ln for ln in out.splitlines() if ln.startswith("VIOLATION")]
                detail = [ln for ln in out.splitlines() if ln.startswith("  x")]
                res["checks"][prop] = dict(rc=rc, violations=len(viol), first=viol[:2], detail=detail[:3],
                                           harness_errors=[ln for ln in out.splitlines() if ln.startswith("HARNESS-ERROR")][:3],
                                           summary=out.strip().splitlines()[-1:] , wall_s=round(time.time() - t, 1))
                # keep one replay file as evidence of the counterexample
                if viol:
                    m = re.search(r"replay=(\S+)", viol[0])
                    if m and os.path.exists(m.group(1)):
                        res["checks"][prop]["replay_doc"] = json.load(open(m.group(1)))
            res["detected"] = any(c["rc"] == 1 and c["violations"] > 0 for c in res["checks"].values())
        if not a.no_tests:
            b = baseline()
            passed, failed, wall = run_tests(wt)
            res["tests"] = dict(passed=len(passed), failed=len(failed), wall_s=wall, baseline_passed=len(b["passed"]), failed_tests=failed,
                                newly_failing=sorted(set(b["passed"]) - set(passed)), newly_passing=sorted(set(passed) - set(b["passed"])))
            res["tests_unchanged"] = set(passed) == set(b["passed"])
    finally:
        drop(wt)
        if os.path.exists(clean):
            drop(clean)
    os.makedirs(os.path.join(BASE, "results"), exist_ok=True)
    outp = os.path.join(BASE, "results", name + ".json")
    if os.path.exists(outp):
        # a partial re-run (--no-tests / --no-check) keeps what an earlier run of the same patch established
        try:
            old = json.load(open(outp))
            if a.no_tests and "tests" in old:
                res["tests"], res["tests_unchanged"] = old["tests"], old.get("tests_unchanged")
            if a.no_check and "checks" in old:
                res["checks"], res["detected"] = old["checks"], old.get("detected")
        except Exception:
            pass
    json.dump(res, open(outp, "w"), indent=1, default=str)
    slim = {k: v for k, v in res.items() if k not in ("demo_clean_tail",)}
    for c in slim.get("checks", {}).values():
        c.pop("replay_doc", None)
    print(json.dumps(slim, indent=1, default=str))
    return 0


if __name__ == "__main__":
    sys.exit(main())
