#!/usr/bin/env python3
"""regenerate /verif/MANIFEST.json from the table below (kept valid against /root/.vp/MANIFEST.schema.json)"""
import json
import os

ROOT = os.path.dirname(os.path.dirname(os.path.abspath(__file__)))

CLAIMED = {
    "C02": dict(
        text="Bounded symbolic model checking of the real remove_pbc: all real displacement values, all symbolic orthogonal "
             "and lower-triangular cells (2D/3D), all masks; half-cell, lattice-translation, shift-invariance, idempotence "
             "and shortest-image obligations decided by z3 per path.",
        note="floats modelled as reals; np.linalg.inv replaced by the adjugate closed form; np.rint is a function symbol "
             "constrained by solver-proved lemma instances; general 3x3 symbolic cells and n>3 rows outside the bound.",
        ref="DESIGN.md C02"),
    "C12": dict(
        text="Bounded symbolic model checking of PairInteractions: for all real r, epsilon, sigma, r_c > 0 (and A, symbolic or "
             "tabulated exponents) the returned s', s'(r_c), s'' are decided equal to the term-differentiated documented "
             "potential; both shift settings; method calls and the caller() selector.",
        note="floats modelled as reals; symbolic exponents through one positive power symbol per (base, exponent mod 1); "
             "harmonic/Hertz restricted to 0 < r < sigma; concrete replays use 40-digit numerical differentiation.",
        ref="DESIGN.md C12"),
    "C08": dict(
        text="Bounded symbolic model checking of the closed-form table: each of the 120 entries (l=1..10) is decided equal to the "
             "Condon-Shortley recurrence identically in both angles (unit-circle parametrisation), in order m=-l..l, plus "
             "Unsold sum, conjugation symmetry, the dispatcher l=1..12 and the delegated branch's call contract.",
        note="floats modelled as reals; pi and sqrt(1/pi) are constrained symbols; scipy's compiled routine is replaced by the "
             "reference for its documented signature in the symbolic run and called for real in concrete replays.",
        ref="DESIGN.md C08"),
    "C01": dict(
        text="Bounded symbolic model checking of DumpReader/read_lammps on real text files whose numerals are opaque symbols: "
             "for all timesteps, bounds, tilts (either sign), coordinates and extra columns, every line order, 2D/3D, "
             "x/xs/xu, orthogonal/triclinic, the snapshots are decided equal to the LAMMPS conventions field by field.",
        note="floats modelled as reals; digit-level lexing of numerals outside the claim; N<=2 (quick) / 3 (thorough) atoms, "
             "F<=2/3 frames; triclinic multi-frame 3D files use seeded concrete tilts.",
        ref="DESIGN.md C01"),
    "C19": dict(
        text="Bounded symbolic model checking of write_dump_header -> read_lammps_wrapper, the molecule-centre reader, the "
             "column readers and the HOOMD frame converters on symbolic numerals / duck-typed frames; all values symbolic, "
             "type maps and column lists enumerated.",
        note="read_lammpslog: only the section structure is symbolic (row counts 1..3 per section, forked by the engine), the numbers "
             "are concrete because they pass through pandas' C parser; 'to written precision' is the identity in the "
             "symbolic run and 2e-6 in concrete replays; gsd/mdtraj file parsers are replaced by duck-typed frames.",
        ref="DESIGN.md C19"),
    "C05": dict(
        text="Bounded symbolic model checking of Nnearests / cutoffneighbors / cutoffneighbors_particletype writing real files "
             "and read_neighbors reading them back: all real positions and cut-offs (N=3), every sort order explored as a "
             "solver-decided path; membership, ordering, no-self, symmetry, file layout and reader padding/truncation.",
        note="floats modelled as reals; periodic cells are concrete rational (orthogonal and triclinic) with rint as a function "
             "symbol + lemma instances; coincident particles excluded; N=4 only with two concrete particles (thorough).",
        ref="DESIGN.md C05"),
    "C03": dict(
        text="Bounded symbolic model checking of gr(...).getresults(): for all real positions, box lengths and bin widths "
             "(N=3 fully symbolic for K<=3, ladder families for K=4..6) every returned column is decided equal to the "
             "normalised pair histogram, the sum rule and the column set; the species-pair selectors of binary..quinary are "
             "taken from the AST and z3 decides their classification for all type pairs.",
        note="floats modelled as reals; np.histogram modelled by its documented semantics; int(Lmin/2/delta) concretised by "
             "forking (B<=2 quick, 3 thorough); CSV formatting not modelled.",
        ref="DESIGN.md C03"),
    "C04": dict(
        text="Bounded symbolic model checking of sq(...).getresults(): all real positions in concrete unequal-edge boxes; every "
             "S_ab(q) column decided equal to the density-mode definition averaged over equal |q|, sum rule, non-negativity "
             "(sum-of-squares form) and the default wave-vector table decided against its definition.",
        note="floats modelled as reals; one (cos,sin) pair per distinct phase; round(6) is the identity in the symbolic run "
             "(2e-6 tolerance in replays); box concrete; Q<=4 vectors, N<=7.",
        ref="DESIGN.md C04"),
    "C13": dict(
        text="Bounded symbolic model checking of conditional_gr (bool/float/complex/vector/tensor) and conditional_sq "
             "(bool/float/vector): weighted histogram / Fourier-sum definitions with the documented normalisation decided for "
             "all real positions and field values (N=3), plus the reductions to g_aa / S_aa (through the gr/sq classes in the "
             "same path), A=1 -> totals, vector = sum of components, gA_norm.",
        note="floats modelled as reals; histogram by documented semantics; one (cos,sin) pair per phase; round(8) identity; "
             "empty selections and constant A (0/0) excluded by assumption.",
        ref="DESIGN.md C13"),
    "C14": dict(
        text="Bounded symbolic model checking of time_correlation: scalar/vector/tensor series, real and complex, all values "
             "symbolic, even / uneven / single-frame timestep patterns; every lag decided equal to the origin-averaged "
             "normalised autocorrelation, time axis and C(0)=1.",
        note="floats modelled as reals; T<=3 (quick) / 5 (thorough), N<=2/3; timesteps concrete, dt symbolic; lag-zero norm "
             "assumed non-zero.",
        ref="DESIGN.md C14"),
    "C06": dict(
        text="Bounded symbolic model checking of Dynamics.relaxation / LogDynamics.relaxation / sq4 / cage_relative: all positions, "
             "diameters, cutoff factor, wavenumber and dt symbolic; every row decided equal to the origin-averaged definitions "
             "(isf, Qt, chi4, msd, alpha2, time axis), selections, cage-relative displacements with per-frame neighbour lists, "
             "wrapped == unwrapped under integer images, S4 = structure factor of the mobile subset.",
        note="floats modelled as reals; F<=3, N<=3; cos through a structural cache with congruence instances; rint lemmas for the "
             "wrapped run; selections concrete and of constant size; 0/0 cases excluded by assumption.",
        ref="DESIGN.md C06"),
    "C16": dict(
        text="Bounded symbolic model checking of spatial_average, gaussian_blurring and time_average with all property values, "
             "positions, bounds, sigma, cut-off, dt and period symbolic; grid = full Cartesian product in row-major order with the "
             "documented Gaussian sums; window means and central index; the flat-index and middle-index expressions are taken "
             "from the AST and decided by z3 for all grid shapes <= 64 per axis and all windows <= 10^6.",
        note="floats modelled as reals; exp through a structural cache; cut-off tests left free for 3 grid points per run (others "
             "assumed inside); int(period/interval) concretised by forking; open boundaries in the blurring runs (quick).",
        ref="DESIGN.md C16"),
    "C10": dict(
        text="Bounded symbolic model checking of boo_2d: ParticlePhi decided equal to the (weighted) mean of exp(i l theta) over "
             "minimum-image bonds for all real positions and weights of either sign (De Moivre on the algebraic bond direction), "
             "|psi|<=1 via unit-phase lemmas, =1 on perfect square/triangular stars with symbolic scale/orientation/origin, "
             "rotation covariance psi' = e^{i l alpha} psi, and time_average / spatial_corr / time_corr against the documented "
             "constituent functions.",
        note="floats modelled as reals; N=3, <=2 bonds per particle, l in {1,2,3,4,6} quick / 1..12 thorough; concrete cells for "
             "periodic runs; phase averaging (average_complex=False) uses a real phase symbol with algebraic (cos,sin).",
        ref="DESIGN.md C10"),
    "C15": dict(
        text="Bounded symbolic model checking of the vector-field measures: participation ratio formula, scale invariance and "
             "1/N<=PR<=1 (N<=4, via one non-negative symbol per particle norm), alignment, phase quotient and |PQ|<=1, "
             "divergence/curl (2D/3D, open and periodic concrete cells), vibrability, and the Fourier-space split: L parallel to "
             "q, q.T=0, L+T=F, S=S_L+S_T, plus the per-wave-vector time correlation of FFT/T_FFT/L_FFT against the C14 oracle.",
        note="floats modelled as reals; concrete neighbour topologies and boxes; phases through the structural cache; files "
             "written by the correlation variant are recorders in the symbolic run and real files in replays.",
        ref="DESIGN.md C15"),
    "C11": dict(
        text="Bounded symbolic model checking of HessianMatrix.diagonalize_hessian: the saved matrix is decided equal, entry by "
             "entry, to M^-1/2 (d2U/dr dr) M^-1/2 of the documented (force-shifted) pair energy obtained by term differentiation, "
             "for all positions, unequal masses and parameter matrices, LJ / IPL / harmonic / Hertz, both sides of every cut-off "
             "test; symmetry, translation sum rule under full periodicity, omega = sqrt(lambda) and 0 < PR <= 1 from the eigh contract.",
        note="floats modelled as reals; N=2 (3 thorough); np.linalg.eigh replaced by its contract (fresh eigenvalues, unit-norm "
             "columns) in the symbolic run, real LAPACK in replays; finite-difference confirmation is not a solver technique and "
             "is replaced by 30-digit numerical differentiation in replays only.",
        ref="DESIGN.md C11"),
    "C17": dict(
        text="Bounded symbolic model checking of S2.particle_s2 (bins, shell norms, prefactor, trapezoid weights, width selection, "
             "r<r_max filter with exp/log as function symbols), q8_tetrahedral (formula over the four nearest, =1 on the perfect "
             "tetrahedron with symbolic scale/origin), NematicOrder.tensor (Q tensor, neighbour average, trace scalar = 2 lambda_max) "
             "and gyration_tensor (centred second-moment tensor and descriptors of its eigenvalues).",
        note="floats modelled as reals; exp/log/eig are contract-level symbols (2x2 closed form, 3x3 Vieta relations); N<=5; "
             "general tetrahedral configurations vary one particle (one coordinate in quick); 0*log 0 cases excluded.",
        ref="DESIGN.md C17"),
    "C09": dict(
        text="Bounded symbolic model checking of boo_3d, compositionally: (1) every sph_harm_l call the class makes is recorded and "
             "the solver decides that its degree and (cos,sin) of both angles are those of the minimum-image bond; (2) with the "
             "call answered by 2l+1 opaque complex symbols, q_lm, Q_lm, q_l, w_l (against the code's Wigner table, itself checked "
             "entry-wise against the exact Racah value), w-hat_l, s_ij with padding and thresholded count, spatial_corr and time_corr "
             "are decided as identities for l up to 12; equal weights == unweighted; 0<=q_l<=1 and |s_ij|<=1 with Cauchy-Schwarz "
             "decided through Lagrange's identity; (3) the real table end to end for l<=2 and the tabulated fcc/bcc/sc (hcp, "
             "icosahedron thorough) values with symbolic lattice constant and origin.",
        note="floats modelled as reals; the values Y_lm themselves are C08's subject; N=3 (4 thorough), <=2-3 bonds per particle; "
             "bonds parallel to z, zero weights sums and c<0 excluded; Unsold's identity is a stated lemma for the opaque vectors.",
        ref="DESIGN.md C09"),
    "C07": dict(
        text="Bounded symbolic model checking of metamorphic pairs: on one explored path the real analysis runs on a symbolic "
             "configuration and on its transformed copy, and the solver decides equality / permutation / column swap of the "
             "outputs. Transformations with symbolic parameters: translation vector, integer image numbers per particle (concrete "
             "orthogonal and triclinic cells), all relabellings (N=3), species swap, axis permutation with the box, rotation "
             "(cos,sin on the unit circle; axis rotations in 3D), dilation. Observables: g(r), S(q), cut-off and N-nearest lists, "
             "boo_2d psi/|psi|, boo_3d q_l, Q_l, w_l, w-hat_l, tetrahedral order, relaxation functions, gyration descriptors, "
             "participation ratio, Hessian matrix (equal / P H P^T / axis-permuted).",
        note="floats modelled as reals; N=3 (5 for tetrahedral order with 4 concrete); away from half-cell ties and equal "
             "distances; q_l rotation only about z with the real table (l=1), other boo_3d cells with opaque Y vectors matched "
             "semantically; Hessian spectra follow from the decided matrix law (eigh stubbed); pair entropy and general SO(3) "
             "not covered.",
        ref="DESIGN.md C07"),
    "C18": dict(
        text="Bounded symbolic model checking of frame conditions: (a) the harnesses of C02-C06, C09-C17 re-run in frame mode, where "
             "every snapshot array and array argument is compared element-wise (solver) before/after on every path, a write monitor "
             "in the numpy facade logs every write reaching an input's memory, and each path's model is replayed on the real code "
             "with a byte comparison; (b) call sequences A;B;A on shared snapshots and analysis objects (g(r)/S(q)/conditional, "
             "boo_2d, boo_3d, Dynamics/LogDynamics, coarse graining, vector measures, neighbour writers, gyration tensor, "
             "VolumeMatrix): identical results, unchanged object state, recorded file object == returned object.",
        note="term identity over the reals is what the solver decides; bit-level identity is decided only on the concrete replays "
             "(path models and, for writes that cancel over the reals, a few seeded float64 inputs - labelled sampling in the "
             "evidence); freud is stubbed in the symbolic run; CSV text precision outside the claim.",
        ref="DESIGN.md C18"),
    "C20": dict(
        text="PARTIAL. Bounded symbolic model checking of the Python side of the Voronoi wrappers with the compiled tessellation "
             "replaced by a stub (arbitrary positive volumes per call for VolumeMatrix; enumerated neighbour topologies with decimal "
             "weights for cal_neighbors; every call's inputs recorded): convert_configuration centres every frame on its own box "
             "for any origin and pads z=0 in 2D; cal_neighbors writes one header per frame, every particle once in id order with "
             "ids from one, cn = listed neighbours = listed weights, the library's neighbours/weights/volumes in its order, files "
             "readable by read_neighbors; VolumeMatrix uses the requested frame, displaces exactly one coordinate of one particle "
             "by +-deltar about the centred position and restores it, central differences, self term from translation invariance "
             "(rows sum to zero per displaced coordinate), normalisation by the unperturbed volume.",
        note="NOT decided symbolically: what the property says about the tessellation itself (symmetric relation, positive equal "
             "weights, volumes summing to the box) - computed inside the compiled freud extension where symbolic execution stops; "
             "these clauses are only observed on the real library's output in the concrete replay of each path (sampling). "
             "N=4 (5), F<=2 (3), transform_matrix=False.",
        ref="DESIGN.md C20"),
}

NOT_APPLICABLE = {
}

PENDING_REASON = "check not built yet in this round (planned, see DESIGN.md section 2); no claim is made until it is registered"


def main():
    props = [json.loads(l)["id"] for l in open(os.path.join(ROOT, "properties.jsonl"))]
    checks = []
    for pid in props:
        if pid not in CLAIMED:
            continue
        c = CLAIMED[pid]
        checks.append(dict(
            property_id=pid,
            quick_cmd=f"./check {pid} --tier quick",
            thorough_cmd=f"./check {pid} --tier thorough",
            evidence_file=f"evidence/{pid}.json",
            replay_cmd_template=f"./check {pid} --replay {{path}}",
            engine="symx",
            level_claimed=dict(category="model_checking", text=c["text"], design_ref=c["ref"]),
            level_note=c["note"],
            technique="bounded symbolic execution of the real Python/numpy code on proxy scalars; z3 (QF_NRA/LRA) decides every "
                      "branch and obligation; sat models replayed on the real code",
        ))
    na = []
    for pid in props:
        if pid in CLAIMED:
            continue
        na.append(dict(property_id=pid, reason=NOT_APPLICABLE.get(pid, PENDING_REASON)))
    man = dict(
        version=1,
        setup_cmd="./setup.sh",
        hooks=dict(guard="PYMATTERSIM_VERIF", enable="no source hooks are needed: facades are bound into module globals at run time",
                   baseline_off_cmd="cd /repo && /venv/bin/python -m pytest -ra -q -p no:cacheprovider --timeout=900 --continue-on-collection-errors",
                   source_commits=[], add_only=True),
        engines=[dict(name="symx", path="symx/", serves_properties=sorted(CLAIMED),
                      kind_free_text="proxy-object symbolic execution of the real numpy/pandas code with z3 deciding branches and obligations")],
        checks=checks,
        notes="See DESIGN.md. Exit codes of ./check: 0 held, 1 VIOLATION, 3 harness error.",
        not_applicable=na,
    )
    with open(os.path.join(ROOT, "MANIFEST.json"), "w") as f:
        json.dump(man, f, indent=1)
    try:
        import jsonschema
        jsonschema.validate(man, json.load(open("/root/.vp/MANIFEST.schema.json")))
        print("MANIFEST.json valid;", len(checks), "checks,", len(na), "not_applicable")
    except ImportError:
        print("written (jsonschema not available)")


if __name__ == "__main__":
    main()
