"""Term differentiator over the rational normal form (DESIGN C11/C12): total derivative of an SR with
respect to an input atom, through sqrt / pow / exp / log / trig atoms by the chain rule.
Indicator, rint and floor atoms are piecewise constant (derivative 0 away from their jumps)."""
from fractions import Fraction

from . import poly as P
from . import scalar as S
from .scalar import SR


def _atom_idx(x: SR) -> int:
    (m, c), = x.n.items()
    assert c == 1 and len(m) == 1 and m[0][1] == 1 and not x.d, "differentiate w.r.t. a plain variable"
    return m[0][0]


def p_diff(p, at):
    out = {}
    for m, c in p.items():
        for i, (a, e) in enumerate(m):
            if a == at:
                nm = m[:i] + (((a, e - 1),) if e > 1 else ()) + m[i + 1:]
                out[nm] = out.get(nm, 0) + c * e
                break
    return {m: c for m, c in out.items() if c}


def partial(sr: SR, at: int) -> SR:
    """partial derivative treating every other atom as independent"""
    dn = p_diff(sr.n, at)
    res = SR.mk(dn, dict(sr.d)) if dn else S.ZERO()
    for k, e in sr.d.items():
        f = S.REG.key2poly[k]
        df = p_diff(f, at)
        if not df:
            continue
        d2 = dict(sr.d)
        d2[k] = e + 1
        res = res - SR.mk(P.p_scale(P.p_mul(sr.n, df), Fraction(e)), d2)
    return res


def diff(sr: SR, x: SR, _memo=None) -> SR:
    xi = x if isinstance(x, int) else _atom_idx(x)
    memo = {} if _memo is None else _memo

    def d_atom(a: int) -> SR:
        if a == xi:
            return SR.const(1)
        if a in memo:
            return memo[a]
        at = S.REG.atoms[a]
        k = at.kind
        if k in ("var", "ivar", "pi", "croot", "ind", "rint", "floor"):
            r = S.ZERO()
        elif k == "def":
            r = total(at.data)
        elif k == "sqrt":
            dx = total(at.data)
            r = dx / (2 * SR.atom(a)) if dx.n else S.ZERO()
        elif k == "pow":
            base, e0 = at.data
            db = total(base)
            de = total(e0)
            if de.n:
                raise NotImplementedError("derivative w.r.t. a variable in the exponent")
            r = e0 * SR.atom(a) / base * db if db.n else S.ZERO()
        elif k == "exp":
            r = SR.atom(a) * total(at.data)
        elif k == "log":
            r = total(at.data) / at.data
        elif k == "cos":
            da = total(at.data)
            r = -S.trig(at.data)[1] * da if da.n else S.ZERO()
        elif k == "sin":
            da = total(at.data)
            r = S.trig(at.data)[0] * da if da.n else S.ZERO()
        else:
            raise NotImplementedError(f"derivative of atom kind {k}")
        memo[a] = r
        return r

    def total(s: SR) -> SR:
        res = S.ZERO()
        for a in sorted(s.atomset()):
            da = d_atom(a)
            if not da.n:
                continue
            pa = partial(s, a)
            if pa.n:
                res = res + pa * da
        return res

    return total(sr)
