"""replacements for the builtins / math / cmath names that repo modules resolve through their globals"""
import builtins
import cmath as _cmath
import math as _math

import numpy as _np

from . import scalar as S
from .scalar import SR, SC, SAngle, SImAngle


def sym_float(x=0.0):
    if isinstance(x, SR):
        return x
    if isinstance(x, str) and S.ENGINE is not None:
        v = S.ENGINE.parse_token(x)
        if v is not None:
            return v
    return builtins.float(x)


def sym_int(x=0, *a):
    if isinstance(x, SR):
        if x.is_const():
            return builtins.int(x.cval())
        return S.ENGINE.concretize_int(x)
    if isinstance(x, str) and S.ENGINE is not None and not a:
        v = S.ENGINE.parse_token(x)
        if v is not None:
            return v          # an integer-valued symbol read from text passes through unchanged
    return builtins.int(x, *a)


def sym_sqrt(x):
    if isinstance(x, SR):
        return S.sqrt(x)
    if isinstance(x, (int, float, _np.integer, _np.floating)) and not isinstance(x, bool) and S.ENGINE is not None and x >= 0:
        # exact: sqrt(2) stays the algebraic number rt2, not its double (modules doing pure integer work keep math.sqrt)
        return S.sqrt(S.lift_strict(x))
    return _math.sqrt(x)


def sym_modf(x):
    if isinstance(x, SR):
        if x.is_const():
            f, i = _math.modf(builtins.float(x.cval()))
            return f, i
        raise S.SymbolicLeak("modf of symbolic value")
    return _math.modf(x)


def sym_isinstance(obj, cls):
    if builtins.isinstance(obj, SR):
        if cls is builtins.float or (builtins.isinstance(cls, tuple) and builtins.float in cls):
            return True
    return builtins.isinstance(obj, cls)


class _CMath:
    def exp(self, x):
        if isinstance(x, (SC, SImAngle)):
            return x.exp()
        if isinstance(x, SR):
            return x.exp()
        return _cmath.exp(x)

    def sqrt(self, x):
        if isinstance(x, SR):
            return S.sqrt(x)
        return _cmath.sqrt(x)

    def __getattr__(self, name):
        return getattr(_cmath, name)


CMATH = _CMath()
