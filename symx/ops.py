"""mode-agnostic helpers for harness / reference code: work on proxies or on plain floats."""
import builtins
import math
from fractions import Fraction

import numpy as np

from . import scalar as S
from .scalar import SR, SC, SB, SAngle
from .engine import close, RTOL, ATOL


def is_sym(x):
    return isinstance(x, (SR, SC, SB, SAngle))


class Verdict:
    """concrete comparison result that remembers why it failed"""
    __slots__ = ("ok", "why")

    def __init__(self, ok, why=""):
        self.ok, self.why = builtins.bool(ok), why

    def __bool__(self):
        return self.ok

    def __and__(self, o):
        if isinstance(o, SB):
            return o if self.ok else False
        return Verdict(self.ok and builtins.bool(o), self.why or getattr(o, "why", ""))

    __rand__ = __and__

    def __or__(self, o):
        if isinstance(o, SB):
            return True if self.ok else o
        return Verdict(self.ok or builtins.bool(o), self.why)

    __ror__ = __or__

    def __invert__(self):
        return Verdict(not self.ok, "not(" + self.why + ")")


class Undecided:
    """an obligation whose terms could not be built within the size limit"""
    ok = False
    why = "term too large"

    def __init__(self, why="term too large"):
        self.why = why

    def __bool__(self):
        return False

    def __and__(self, o):
        return self

    __rand__ = __and__

    def __or__(self, o):
        return self

    __ror__ = __or__

    def __invert__(self):
        return self


def _guard(f):
    import functools
    from .poly import TermTooLarge

    @functools.wraps(f)
    def g(*a, **k):
        try:
            return f(*a, **k)
        except TermTooLarge as e:
            return Undecided(str(e))
    return g


@_guard
def eq(a, b, rtol=RTOL, atol=ATOL, expand=False):
    """expand=True: symbols introduced with ctx.define() are replaced by their definitions before comparing"""
    if is_sym(a) or is_sym(b):
        a, b = S.lift_strict(a), S.lift_strict(b)
        if isinstance(a, SC) or isinstance(b, SC):
            a, b = S.as_sc(a), S.as_sc(b)
            return And(_eq_sr(a.re, b.re, expand), _eq_sr(a.im, b.im, expand))
        return _eq_sr(a, b, expand)
    return Verdict(close(a, b, rtol, atol), f"{a!r} != {b!r}")


def _eq_sr(a, b, expand=False):
    r = a == b
    if r is True and not (a.is_const() and b.is_const()):
        return S.structural_eq(a, b)
    if expand and isinstance(r, SB):
        # symbols introduced with define(): compare after substituting their definitions
        ea, eb = S.expand_defs(a), S.expand_defs(b)
        if ea is not a or eb is not b:
            r2 = ea == eb
            if r2 is True:
                return S.structural_eq(ea, eb)
    return r


@_guard
def le(a, b, tol=1e-9):
    if is_sym(a) or is_sym(b):
        return S.lift_strict(a) <= S.lift_strict(b)
    return Verdict(a <= b + tol * max(1.0, abs(a), abs(b)), f"{a!r} > {b!r}")


@_guard
def lt(a, b):
    if is_sym(a) or is_sym(b):
        return S.lift_strict(a) < S.lift_strict(b)
    return Verdict(a < b, f"{a!r} >= {b!r}")


def ge(a, b, tol=1e-9):
    return le(b, a, tol)


def gt(a, b):
    return lt(b, a)


def And(*xs):
    out = True
    for x in xs:
        if out is True:
            out = x
        elif out is False:
            return False
        else:
            out = out & x
    return out


def Or(*xs):
    out = False
    for x in xs:
        if out is False:
            out = x
        elif out is True:
            return True
        else:
            out = out | x
    return out


def Not(x):
    if isinstance(x, (bool, np.bool_)):
        return not x
    return ~x


def Implies(a, b):
    return Or(Not(a), b)


def If(c, a, b):
    if isinstance(c, SB):
        return S.where(c, a, b)
    return a if c else b


def sqrt(x):
    if is_sym(x) or (isinstance(x, (Fraction, int)) and not isinstance(x, bool) and S.ENGINE is not None):
        return S.sqrt(x)            # exact rationals stay exact (prime-root symbols) in the symbolic run
    return math.sqrt(x)


def pi(ctx):
    return S.pi() if ctx.mode == "sym" else math.pi


def cos_sin(x):
    """(cos, sin) of an angle-like value in either mode"""
    if isinstance(x, SAngle):
        return x.c, x.s
    if isinstance(x, SR):
        return S.trig(x)
    return math.cos(x), math.sin(x)


def rint(x):
    if isinstance(x, SR):
        return x.rint()
    if isinstance(x, Fraction):
        return Fraction(S._half_even(x))        # exact round-half-even on a concrete rational
    return float(np.rint(x))


def floor(x):
    if isinstance(x, SR):
        return x.floor()
    if isinstance(x, Fraction):
        return Fraction(math.floor(x))
    return float(math.floor(x))


def exp(x):
    if isinstance(x, SR):
        return x.exp()
    return math.exp(x)


def log(x):
    if isinstance(x, SR):
        return x.log()
    return math.log(x)


def absval(x):
    return abs(x)


def frac(a, b=1):
    """exact rational constant in sym mode, float otherwise (decided by caller's ctx)"""
    return Fraction(a, b)


def cplx(re, im):
    if is_sym(re) or is_sym(im):
        return SC(S.lift_strict(re), S.lift_strict(im))
    return complex(re, im)


def re_im(z):
    if isinstance(z, SC):
        return z.re, z.im
    if isinstance(z, SR):
        return z, S.ZERO()
    z = complex(z)
    return z.real, z.imag


def oblige_array_eq(ctx, name, got, want):
    """element-wise equality obligations got[idx] == want[idx]"""
    g = np.asarray(got) if not isinstance(got, np.ndarray) else got
    w = np.asarray(want, dtype=object) if not isinstance(want, np.ndarray) else want
    if g.shape != w.shape:
        ctx.oblige(f"{name}.shape", Verdict(False, f"shape {g.shape} != {w.shape}") if ctx.mode == "conc" else False)
        return
    for idx in np.ndindex(g.shape):
        ctx.oblige(f"{name}[{','.join(map(str, idx))}]", eq(g[idx], w[idx]))
