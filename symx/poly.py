"""Sparse multivariate polynomials over Q in 'atoms' and partially factored rational functions.

This is the rational normal form of DESIGN 1.2b: every real-valued symbolic scalar is kept as
    num / prod_i f_i ** e_i
with num an expanded sparse polynomial (dict monomial -> Fraction) and the f_i primitive
non-constant polynomials (leading coefficient 1 in a fixed term order).  Atoms are small
integers that index the per-path atom registry of the engine (variables, materialised square
roots, indicator terms, trig/exp/rint cache symbols, pi).

Only equivalence-preserving rewrites are done here:
  * arithmetic of rational functions,
  * I*I -> I for indicator atoms (values in {0,1}),
  * v*v -> q for square roots of constant rationals (prime radicands).
Everything else (sqrt/trig definitions, ordering, integrality) is left to the solver.
"""
from __future__ import annotations

from fractions import Fraction
from typing import Dict, Tuple, Optional

Mono = Tuple[Tuple[int, int], ...]          # ((atom, exp), ...) sorted by atom
Poly = Dict[Mono, Fraction]

ONE_M: Mono = ()

# atom properties consulted by the algebra (filled by the engine's registry)
IDEMPOTENT: set = set()          # indicator atoms: a*a == a
CONST_SQUARE: Dict[int, Fraction] = {}   # atoms v with v*v == q (q rational constant)
SQUARE_RULES: Dict[int, "Poly"] = {}     # atoms a with a*a == polynomial in earlier atoms (sqrt of a polynomial, sin of an angle)
POSITIVE: set = set()            # atoms known > 0
NONNEG: set = set()              # atoms known >= 0


def reset_atom_props():
    IDEMPOTENT.clear()
    CONST_SQUARE.clear()
    SQUARE_RULES.clear()
    POSITIVE.clear()
    NONNEG.clear()


# ---------------------------------------------------------------- monomials
def mono_mul(a: Mono, b: Mono):
    """product of monomials -> (coefficient, monomial) (coefficient from v*v -> q rewrites)"""
    if not a:
        return 1, b
    if not b:
        return 1, a
    out = []
    i = j = 0
    la, lb = len(a), len(b)
    coef = 1
    while i < la and j < lb:
        x, y = a[i], b[j]
        if x[0] == y[0]:
            at = x[0]
            e = x[1] + y[1]
            if at in IDEMPOTENT:
                e = 1
            elif at in CONST_SQUARE and e >= 2:
                coef = coef * CONST_SQUARE[at] ** (e // 2)
                e = e % 2
            if e:
                out.append((at, e))
            i += 1
            j += 1
        elif x[0] < y[0]:
            out.append(x)
            i += 1
        else:
            out.append(y)
            j += 1
    if i < la:
        out.extend(a[i:])
    if j < lb:
        out.extend(b[j:])
    return coef, tuple(out)


def mono_of(atom: int, e: int = 1):
    """atom**e as (coef, mono) honouring the rewrite rules"""
    if e == 0:
        return 1, ONE_M
    if atom in IDEMPOTENT:
        return 1, ((atom, 1),)
    if atom in CONST_SQUARE and e >= 2:
        c = CONST_SQUARE[atom] ** (e // 2)
        return c, (((atom, 1),) if e % 2 else ONE_M)
    return 1, ((atom, e),)


# ---------------------------------------------------------------- polynomials
def p_const(c) -> Poly:
    c = Fraction(c)
    return {ONE_M: c} if c else {}


def p_atom(atom: int) -> Poly:
    return {((atom, 1),): Fraction(1)}


def p_add(a: Poly, b: Poly) -> Poly:
    if not a:
        return b
    if not b:
        return a
    if len(a) < len(b):
        a, b = b, a
    out = dict(a)
    for m, c in b.items():
        v = out.get(m)
        if v is None:
            out[m] = c
        else:
            v = v + c
            if v:
                out[m] = v
            else:
                del out[m]
    return out


def p_neg(a: Poly) -> Poly:
    return {m: -c for m, c in a.items()}


def p_sub(a: Poly, b: Poly) -> Poly:
    return p_add(a, p_neg(b))


def p_scale(a: Poly, k) -> Poly:
    if not k:
        return {}
    if k == 1:
        return a
    return {m: c * k for m, c in a.items()}


class TermTooLarge(BaseException):
    """a normal form grew beyond the size limit: the current obligation / path is given up as undecided"""


SIZE_LIMIT = 150000


def p_mul(a: Poly, b: Poly) -> Poly:
    if not a or not b:
        return {}
    if len(a) * len(b) > 40 * SIZE_LIMIT:
        raise TermTooLarge(f"product of {len(a)} x {len(b)} terms")
    if len(a) == 1:
        (ma, ca), = a.items()
        if not ma:
            return p_scale(b, ca)
    if len(b) == 1:
        (mb, cb), = b.items()
        if not mb:
            return p_scale(a, cb)
    out: Poly = {}
    for ma, ca in a.items():
        for mb, cb in b.items():
            k, m = mono_mul(ma, mb)
            c = ca * cb * k if k != 1 else ca * cb
            v = out.get(m)
            if v is None:
                out[m] = c
            else:
                v = v + c
                if v:
                    out[m] = v
                else:
                    del out[m]
        if len(out) > SIZE_LIMIT:
            raise TermTooLarge(f"polynomial with more than {SIZE_LIMIT} terms")
    return out


def p_pow(a: Poly, n: int) -> Poly:
    assert n >= 0
    result = p_const(1)
    base = a
    while n:
        if n & 1:
            result = p_mul(result, base)
        n >>= 1
        if n:
            base = p_mul(base, base)
    return result


def p_is_const(a: Poly) -> bool:
    return not a or (len(a) == 1 and ONE_M in a)


def p_const_value(a: Poly) -> Fraction:
    return a.get(ONE_M, Fraction(0)) if a else Fraction(0)


def p_key(a: Poly):
    return tuple(sorted(a.items()))


def p_atoms(a: Poly) -> set:
    s = set()
    for m in a:
        for at, _ in m:
            s.add(at)
    return s


def _lead(a: Poly) -> Mono:
    # graded-lex style total order: compare (total degree, monomial tuple)
    return max(a, key=lambda m: (sum(e for _, e in m), m))


def p_primitive(a: Poly):
    """split a == c * g * p  with c rational, g monomial (common atom powers), p primitive with
    leading coefficient 1.  returns (c, g, p)."""
    assert a
    # monomial gcd
    it = iter(a)
    first = next(it)
    g = dict(first)
    for m in it:
        if not g:
            break
        dm = dict(m)
        for at in list(g):
            e = dm.get(at)
            if e is None:
                del g[at]
            elif e < g[at]:
                g[at] = e
    # idempotent / const-square atoms can not be divided out safely (zero divisors / rewrites)
    for at in list(g):
        if at in IDEMPOTENT or at in CONST_SQUARE:
            del g[at]
    gm = tuple(sorted(g.items()))
    if gm:
        red = {}
        for m, c in a.items():
            dm = dict(m)
            for at, e in gm:
                ne = dm[at] - e
                if ne:
                    dm[at] = ne
                else:
                    del dm[at]
            red[tuple(sorted(dm.items()))] = c
    else:
        red = a
    lc = red[_lead(red)]
    if lc != 1:
        red = {m: c / lc for m, c in red.items()}
    return lc, gm, red


def p_divexact(a: Poly, b: Poly) -> Optional[Poly]:
    """exact division a / b, or None if b does not divide a (or the attempt is not supported)"""
    if not b:
        return None
    if not a:
        return {}
    for m in b:
        for at, _ in m:
            if at in IDEMPOTENT or at in CONST_SQUARE:
                return None
    if len(b) == 1:
        (mb, cb), = b.items()
        dmb = dict(mb)
        out = {}
        for m, c in a.items():
            dm = dict(m)
            for at, e in dmb.items():
                ne = dm.get(at, 0) - e
                if ne < 0:
                    return None
                if ne:
                    dm[at] = ne
                else:
                    dm.pop(at, None)
            out[tuple(sorted(dm.items()))] = c / cb
        return out
    lb = _lead(b)
    clb = b[lb]
    dlb = dict(lb)
    rem = dict(a)
    quo: Poly = {}
    guard = 0
    limit = 4 * len(a) + 64
    while rem:
        guard += 1
        if guard > limit:
            return None
        lr = _lead(rem)
        dm = dict(lr)
        for at, e in dlb.items():
            ne = dm.get(at, 0) - e
            if ne < 0:
                return None
            if ne:
                dm[at] = ne
            else:
                dm.pop(at, None)
        qm = tuple(sorted(dm.items()))
        qc = rem[lr] / clb
        quo[qm] = quo.get(qm, 0) + qc
        rem = p_sub(rem, p_mul({qm: qc}, b))
    return {m: c for m, c in quo.items() if c}


def p_sign(a: Poly) -> Optional[int]:
    """syntactic sign: +1 (>0), -1 (<0), 0 (==0), 2 (>=0), -2 (<=0) or None (unknown)"""
    if not a:
        return 0
    strict = False
    sgn = None
    for m, c in a.items():
        mpos = True      # monomial value > 0 ?
        for at, e in m:
            if at in POSITIVE:
                continue
            if at in NONNEG or e % 2 == 0:
                mpos = False
                continue
            return None
        s = 1 if c > 0 else -1
        if sgn is None:
            sgn = s
        elif sgn != s:
            return None
        if mpos:
            strict = True
    if strict:
        return sgn
    return 2 * sgn


def p_reduce(a: Poly, limit: int = 60000) -> Poly:
    """rewrite a**(2k+r) -> rule[a]**k * a**r for every atom with a square rule (equivalence preserving:
    the rule is the atom's definition).  Rules are triangular (rule[a] only mentions earlier atoms), so this
    terminates; highest atoms are eliminated first."""
    if not SQUARE_RULES or not a:
        return a
    cur = a
    for at in sorted(SQUARE_RULES, reverse=True):
        rule = SQUARE_RULES[at]
        need = False
        for m in cur:
            for x, e in m:
                if x == at and e >= 2:
                    need = True
                    break
            if need:
                break
        if not need:
            continue
        out: Poly = {}
        cache = {}
        for m, c in cur.items():
            e = 0
            rest = []
            for x, ex in m:
                if x == at:
                    e = ex
                else:
                    rest.append((x, ex))
            if e < 2:
                v = out.get(m)
                nv = c if v is None else v + c
                if nv:
                    out[m] = nv
                elif m in out:
                    del out[m]
                continue
            k, r = divmod(e, 2)
            pk = cache.get(k)
            if pk is None:
                pk = cache[k] = p_pow(rule, k)
            restm = tuple(rest)
            if r:
                _, restm = mono_mul(restm, ((at, 1),))
            term = p_mul({restm: c}, pk)
            out = p_add(out, term)
            if len(out) > limit:
                return a
        cur = out
    return cur
