"""Proxy scalars: SR (real, rational normal form), SC (complex), SB (bool), SAngle.

The proxies are stored in numpy object arrays; real numpy does the broadcasting, slicing and
reductions and calls back into the element methods (.sqrt(), .exp(), .conjugate(), .rint() ...).
"""
from __future__ import annotations

import math
from fractions import Fraction
from typing import Optional

import numpy as _np
import z3

from . import poly as P

# --------------------------------------------------------------------------- registry


class Atom:
    __slots__ = ("idx", "name", "z", "kind", "data", "fe")

    def __init__(self, idx, name, z, kind, data, fe):
        self.idx, self.name, self.z, self.kind, self.data, self.fe = idx, name, z, kind, data, fe


class Registry:
    """per-path state: atoms, axioms, caches"""

    def __init__(self):
        self.atoms = []
        self.axioms = []          # z3 Bool facts (definitions of atoms)
        self.axiom_sink = None    # engine callback(z3bool)
        self.by_name = {}
        self.sqrt_cache = {}
        self.ind_cache = {}
        self.trig_cache = {}
        self.trig_args = []
        self.fn_cache = {}
        self.key2poly = {}
        self.inputs = []          # atom indices that are free inputs
        self.pi_atom = None
        self.uninterpreted = 0    # number of atoms whose model value may be spurious
        self.phase_atoms = set()  # atoms declared as phase offsets: trig(y + z) is expanded by the addition theorem
        self.uf = []              # union-find over atoms (variable-sharing components)
        P.reset_atom_props()

    def find(self, i):
        uf = self.uf
        r = i
        while uf[r] != r:
            r = uf[r]
        while uf[i] != r:
            uf[i], i = r, uf[i]
        return r

    def union(self, items):
        it = iter(items)
        try:
            r = self.find(next(it))
        except StopIteration:
            return None
        for j in it:
            rj = self.find(j)
            if rj != r:
                self.uf[rj] = r
        return r

    def add_axiom(self, ax, at=None):
        self.axioms.append(ax)
        if self.axiom_sink is not None:
            self.axiom_sink(ax, at)

    def new_atom(self, name, kind, data=None, fe=None, z=None, positive=False, nonneg=False, deps=()):
        idx = len(self.atoms)
        self.uf.append(idx)
        if deps:
            self.union([idx, *deps])
        if z is None:
            z = z3.Real(name)
        a = Atom(idx, name, z, kind, data, fe)
        self.atoms.append(a)
        self.by_name[name] = a
        if positive:
            P.POSITIVE.add(idx)
        if nonneg:
            P.NONNEG.add(idx)
        return a


REG: Registry = Registry()
ENGINE = None     # set by engine; provides decide(sb) and concretize hooks


def reset_registry():
    global REG
    REG = Registry()
    SR._zero = None
    return REG


class SymbolicLeak(Exception):
    """a symbolic value reached a place that needs a concrete number"""


# --------------------------------------------------------------------------- helpers

def snap_float(x: float) -> Fraction:
    """the rational a float literal denotes in the real-number model (DESIGN 1.9): the simplest
    fraction that rounds to the same double, else the exact value of the double."""
    if x != x or x in (float("inf"), float("-inf")):
        raise SymbolicLeak("non-finite float constant")
    f = Fraction(x)
    if f.denominator == 1:
        return f
    for lim in (1000, 10 ** 6, 10 ** 9, 10 ** 12):
        q = f.limit_denominator(lim)
        if float(q) == x:
            return q
    return f


def _squarefree_split(n: int):
    """n = a*a*b with b squarefree -> (a, b)"""
    a, b = 1, 1
    p = 2
    while p * p <= n:
        e = 0
        while n % p == 0:
            n //= p
            e += 1
        a *= p ** (e // 2)
        if e % 2:
            b *= p
        p += 1 if p == 2 else 2
    b *= n
    return a, b


def _prime_factors(n: int):
    out = []
    p = 2
    while p * p <= n:
        if n % p == 0:
            out.append(p)
            while n % p == 0:
                n //= p
        p += 1 if p == 2 else 2
    if n > 1:
        out.append(n)
    return out


def _factor_key(pl):
    k = P.p_key(pl)
    if k not in REG.key2poly:
        REG.key2poly[k] = pl
    return k


def _den_poly(d) -> P.Poly:
    out = P.p_const(1)
    for k, e in d.items():
        out = P.p_mul(out, P.p_pow(REG.key2poly[k], e))
    return out


CANCEL_LIMIT = 4000

# --------------------------------------------------------------------------- SB


class SB:
    """symbolic boolean. z: z3 BoolRef; fe: env->bool; st/sf strict variants when decided T/F"""
    __slots__ = ("z", "fe", "st", "sf", "atoms", "structural")

    def __init__(self, z, fe, st=None, sf=None, atoms=frozenset(), structural=False):
        self.z, self.fe, self.st, self.sf, self.atoms, self.structural = z, fe, st, sf, atoms, structural

    def __bool__(self):
        return ENGINE.decide(self)

    def __and__(self, o):
        o = as_sb(o)
        if o is NotImplemented:
            return NotImplemented
        if isinstance(o, bool):
            return self if o else False
        a, b = self, o
        return SB(z3.And(a.z, b.z), lambda env: a.fe(env) and b.fe(env), atoms=a.atoms | b.atoms,
                  structural=a.structural and b.structural)

    __rand__ = __and__

    def __or__(self, o):
        o = as_sb(o)
        if o is NotImplemented:
            return NotImplemented
        if isinstance(o, bool):
            return True if o else self
        a, b = self, o
        return SB(z3.Or(a.z, b.z), lambda env: a.fe(env) or b.fe(env), atoms=a.atoms | b.atoms)

    __ror__ = __or__

    def __xor__(self, o):
        o = as_sb(o)
        if o is NotImplemented:
            return NotImplemented
        if isinstance(o, bool):
            return ~self if o else self
        a, b = self, o
        return SB(z3.Xor(a.z, b.z), lambda env: a.fe(env) != b.fe(env), atoms=a.atoms | b.atoms)

    __rxor__ = __xor__

    def __invert__(self):
        a = self
        return SB(z3.Not(a.z), lambda env: not a.fe(env), st=a.sf, sf=a.st, atoms=a.atoms)

    def logical_not(self):
        return ~self

    def logical_and(self, o):
        return self & o

    def logical_or(self, o):
        return self | o

    # arithmetic on booleans -> indicator
    def as_sr(self):
        return indicator(self)

    def __add__(self, o):
        return self.as_sr() + o

    def __radd__(self, o):
        return o + self.as_sr()

    def __mul__(self, o):
        if isinstance(o, (SB, bool, _np.bool_)):
            return self & o          # numpy: bool * bool is logical and
        return self.as_sr() * o

    def __rmul__(self, o):
        if isinstance(o, (SB, bool, _np.bool_)):
            return self & o
        return o * self.as_sr()

    def __sub__(self, o):
        return self.as_sr() - o

    def __rsub__(self, o):
        return o - self.as_sr()

    def __eq__(self, o):
        o = as_sb(o)
        if o is NotImplemented:
            return NotImplemented
        if isinstance(o, bool):
            return self if o else ~self
        a, b = self, o
        return SB(a.z == b.z, lambda env: a.fe(env) == b.fe(env), atoms=a.atoms | b.atoms)

    def __ne__(self, o):
        r = self.__eq__(o)
        return r if r is NotImplemented else ~r

    __hash__ = None

    def __repr__(self):
        return f"SB({self.z})"


def structural_eq(a: "SR", b: "SR") -> SB:
    """a == b already holds by normal form (difference is the zero polynomial); package the division-free
    identity  a.num * b.den == b.num * a.den  so that the solver can confirm it independently"""
    lhs = poly_z3(a.n)
    rhs = poly_z3(b.n)
    if b.d:
        lhs = lhs * poly_z3(_den_poly(b.d))
    if a.d:
        rhs = rhs * poly_z3(_den_poly(a.d))
    return SB(lhs == rhs, lambda env: True, atoms=a.atomset() | b.atomset(), structural=True)


def as_sb(o):
    if isinstance(o, SB):
        return o
    if isinstance(o, (bool, _np.bool_)):
        return bool(o)
    if isinstance(o, (int, _np.integer)) and o in (0, 1):
        return bool(o)
    return NotImplemented


def sb_and(*xs):
    out = True
    for x in xs:
        out = out & x if not isinstance(out, bool) else (x if out else False)
    return out


def indicator(b) -> "SR":
    if isinstance(b, (bool, _np.bool_)):
        return SR.const(1 if b else 0)
    key = b.z.get_id()
    hit = REG.ind_cache.get(key)
    if hit is not None:
        return hit[1]
    fe = b.fe
    a = REG.new_atom(f"ind!{len(REG.atoms)}", "ind", data=b,
                     fe=lambda env, fe=fe: 1.0 if fe(env) else 0.0,
                     z=z3.If(b.z, z3.RealVal(1), z3.RealVal(0)), nonneg=True, deps=b.atoms)
    P.IDEMPOTENT.add(a.idx)
    sr = SR(P.p_atom(a.idx), {})
    REG.ind_cache[key] = (b, sr)      # keep b alive so the id stays unique
    return sr


# --------------------------------------------------------------------------- SR


class SR:
    """real scalar in partially factored rational normal form"""
    __slots__ = ("n", "d", "root", "_z", "_k")
    _zero = None

    def __init__(self, n: P.Poly, d: dict, root: Optional["SR"] = None):
        self.n = n
        self.d = d
        self.root = root
        self._z = None
        self._k = None

    # ---- construction
    @staticmethod
    def const(c) -> "SR":
        return SR(P.p_const(c), {})

    @staticmethod
    def atom(idx) -> "SR":
        return SR(P.p_atom(idx), {})

    def is_const(self):
        return not self.d and P.p_is_const(self.n)

    def cval(self) -> Fraction:
        return P.p_const_value(self.n)

    def key(self):
        if self._k is None:
            self._k = (P.p_key(self.n), tuple(sorted(self.d.items())))
        return self._k

    # ---- normalisation
    @staticmethod
    def mk(n: P.Poly, d: dict) -> "SR":
        if not n:
            return SR({}, {})
        if d and len(n) <= CANCEL_LIMIT:
            nd = None
            for k, e in d.items():
                f = REG.key2poly[k]
                while e > 0 and len(n) >= len(f):
                    q = P.p_divexact(n, f)
                    if q is None:
                        break
                    n = q
                    e -= 1
                    if nd is None:
                        nd = dict(d)
                    if e:
                        nd[k] = e
                    else:
                        del nd[k]
            if nd is not None:
                d = nd
        return SR(n, d)

    # ---- arithmetic
    def __add__(self, o):
        o = lift(o)
        if o is NotImplemented:
            return NotImplemented
        if isinstance(o, SC):
            return SC(self + o.re, o.im)
        if isinstance(o, SAngle):
            return o.__radd__(self)
        a, b = self, o
        if not a.n:
            return b
        if not b.n:
            return a
        if a.d == b.d:
            return SR.mk(P.p_add(a.n, b.n), a.d)
        l = dict(a.d)
        for k, e in b.d.items():
            if l.get(k, 0) < e:
                l[k] = e
        na, nb = a.n, b.n
        for k, e in l.items():
            ea = e - a.d.get(k, 0)
            if ea:
                na = P.p_mul(na, P.p_pow(REG.key2poly[k], ea))
            eb = e - b.d.get(k, 0)
            if eb:
                nb = P.p_mul(nb, P.p_pow(REG.key2poly[k], eb))
        return SR.mk(P.p_add(na, nb), l)

    __radd__ = __add__

    def __neg__(self):
        r = SR(P.p_neg(self.n), self.d)
        return r

    def __pos__(self):
        return self

    def __sub__(self, o):
        o = lift(o)
        if o is NotImplemented:
            return NotImplemented
        return self + (-o)

    def __rsub__(self, o):
        o = lift(o)
        if o is NotImplemented:
            return NotImplemented
        return o + (-self)

    def __mul__(self, o):
        o = lift(o)
        if o is NotImplemented:
            return NotImplemented
        if isinstance(o, SC):
            return SC(self * o.re, self * o.im)
        if isinstance(o, SAngle):
            return o.__rmul__(self)
        a, b = self, o
        if not a.n or not b.n:
            return SR({}, {})
        if a is b and a.root is not None:
            return a.root
        if not b.d and P.p_is_const(b.n):
            c = P.p_const_value(b.n)
            r = SR(P.p_scale(a.n, c), a.d)
            if a.root is not None and c > 0:
                r.root = a.root * (c * c)
            return r
        if not a.d and P.p_is_const(a.n):
            c = P.p_const_value(a.n)
            r = SR(P.p_scale(b.n, c), b.d)
            if b.root is not None and c > 0:
                r.root = b.root * (c * c)
            return r
        if a.d or b.d:
            d = dict(a.d)
            for k, e in b.d.items():
                d[k] = d.get(k, 0) + e
        else:
            d = {}
        return SR.mk(P.p_mul(a.n, b.n), d)

    __rmul__ = __mul__

    def inv(self):
        if not self.n:
            return undefined()
        c, g, p = P.p_primitive(self.n)
        d = {}
        for at, e in g:
            d[_factor_key(P.p_atom(at))] = e
        if not (len(p) == 1 and P.ONE_M in p):
            k = _factor_key(p)
            d[k] = d.get(k, 0) + 1
        n = P.p_scale(_den_poly(self.d), Fraction(1) / c) if self.d else P.p_const(Fraction(1) / c)
        r = SR.mk(n, d)
        if ENGINE is not None and not (not d):
            ENGINE.note_division(self)
        return r

    def __truediv__(self, o):
        o = lift(o)
        if o is NotImplemented:
            return NotImplemented
        if isinstance(o, SC):
            return SC(self, ZERO()) / o
        if not o.d and P.p_is_const(o.n):
            c = P.p_const_value(o.n)
            if c == 0:
                return undefined()       # numpy: inf/nan with a warning, no exception
            return self * SR.const(Fraction(1) / c)
        return self * o.inv()

    def __rtruediv__(self, o):
        o = lift(o)
        if o is NotImplemented:
            return NotImplemented
        return o / self

    def __pow__(self, e):
        if isinstance(e, SR):
            if e.is_const():
                e = e.cval()
            else:
                return pow_atom(self, e)
        if isinstance(e, (float, _np.floating)):
            e = snap_float(float(e))
        if isinstance(e, (int, _np.integer)):
            e = Fraction(int(e))
        if not isinstance(e, Fraction):
            return NotImplemented
        if e.denominator == 1:
            k = int(e)
            if k == 0:
                return SR.const(1)
            if k == 2 and self.root is not None:
                return self.root
            if k < 0:
                return (self ** (-k)).inv() if not self.is_const() else SR.const(Fraction(1) / self.cval() ** (-k))
            return SR.mk(P.p_pow(self.n, k), {kk: ee * k for kk, ee in self.d.items()})
        if e.denominator == 2:
            return self.sqrt() ** e.numerator
        if self.is_const():
            v = float(self.cval()) ** float(e)
            raise SymbolicLeak(f"irrational constant power {self.cval()}**{e}")
        return pow_atom(self, SR.const(e))

    def __rpow__(self, b):
        b = lift(b)
        if b is NotImplemented:
            return NotImplemented
        return b ** self

    def __abs__(self):
        s = self.sign()
        if s in (0, 1, 2):
            return self
        if s in (-1, -2):
            return -self
        c = self >= 0
        return where(c, self, -self)

    def __floordiv__(self, o):
        o = lift(o)
        if self.is_const() and isinstance(o, SR) and o.is_const():
            return SR.const(self.cval() // o.cval())
        return (self / o).floor()

    def __mod__(self, o):
        o = lift(o)
        if self.is_const() and isinstance(o, SR) and o.is_const():
            return SR.const(self.cval() % o.cval())
        return self - o * (self / o).floor()

    # ---- sign / comparisons
    def sign(self):
        sn = P.p_sign(self.n)
        if sn is None or sn == 0:
            return sn
        tot = 1
        for k, e in self.d.items():
            sd = P.p_sign(REG.key2poly[k])
            if sd is None:
                return None
            if sd in (2, -2):
                sd //= 2        # denominators are non-zero where defined
            if e % 2:
                tot *= sd
        return sn * tot

    def signpoly_z3(self):
        """a z3 real term with the same sign as self (division free)"""
        t = poly_z3(self.n)
        for k, e in self.d.items():
            if e % 2 == 0:
                continue
            f = REG.key2poly[k]
            sd = P.p_sign(f)
            if sd in (1, 2):
                continue
            if sd in (-1, -2):
                t = -t
            else:
                t = t * poly_z3(f)
        return t

    def _cmp(self, o, op):
        o = lift(o)
        if o is NotImplemented or not isinstance(o, SR):
            return NotImplemented
        a, b = self, o
        # sqrt monotonicity: compare squares when both sides are syntactically non-negative
        if a.root is not None and b.is_const() and b.cval() == 0 and op in ("ge", "lt"):
            return op == "ge"            # a square root is never negative
        if b.root is not None and a.is_const() and a.cval() == 0 and op in ("le", "gt"):
            return op == "le"
        if (a.root is not None or b.root is not None) and op in ("lt", "le", "gt", "ge"):
            sa = a.root if a.root is not None else None
            sb_ = b.root if b.root is not None else None
            if sa is None and a.sign() in (0, 1, 2):
                sa = a * a
            if sb_ is None and b.sign() in (0, 1, 2):
                sb_ = b * b
            if sa is not None and sb_ is not None:
                r = sa._cmp(sb_, op)
                return r
        dlt = a - b
        if op in ("eq", "ne") and dlt.n and P.SQUARE_RULES and not dlt.is_const():
            red = P.p_reduce(dlt.n)
            if red is not dlt.n:
                dlt = SR(red, dlt.d) if red else SR({}, {})
        if dlt.is_const():
            c = dlt.cval()
            return {"lt": c < 0, "le": c <= 0, "gt": c > 0, "ge": c >= 0, "eq": c == 0, "ne": c != 0}[op]
        cs = _const_sign(dlt)
        if cs is not None:
            return {"lt": cs < 0, "le": cs <= 0, "gt": cs > 0, "ge": cs >= 0, "eq": cs == 0, "ne": cs != 0}[op]
        s = dlt.sign()
        if s is not None:
            known = {
                1: dict(lt=False, le=False, gt=True, ge=True, eq=False, ne=True),
                -1: dict(lt=True, le=True, gt=False, ge=False, eq=False, ne=True),
                2: dict(lt=False, ge=True),
                -2: dict(gt=False, le=True),
            }.get(s, {})
            if op in known:
                return known[op]
        # canonical orientation: the same comparison written either way round gives the same z3 term
        lead = max(dlt.n, key=lambda m: (sum(e for _, e in m), m))
        if dlt.n[lead] < 0:
            dlt = -dlt
            op = {"lt": "gt", "le": "ge", "gt": "lt", "ge": "le", "eq": "eq", "ne": "ne"}[op]
        t = dlt.signpoly_z3()
        zero = z3.RealVal(0)
        fe_d = dlt.feval
        ats = dlt.atomset()
        if op == "lt":
            return SB(t < zero, lambda env: fe_d(env) < 0, st=None, sf=t > zero, atoms=ats)
        if op == "le":
            return SB(t <= zero, lambda env: fe_d(env) <= 0, st=t < zero, sf=None, atoms=ats)
        if op == "gt":
            return SB(t > zero, lambda env: fe_d(env) > 0, st=None, sf=t < zero, atoms=ats)
        if op == "ge":
            return SB(t >= zero, lambda env: fe_d(env) >= 0, st=t > zero, sf=None, atoms=ats)
        if op == "eq":
            return SB(t == zero, lambda env: fe_d(env) == 0, atoms=ats)
        return SB(t != zero, lambda env: fe_d(env) != 0, atoms=ats)

    def __lt__(self, o):
        return self._cmp(o, "lt")

    def __le__(self, o):
        return self._cmp(o, "le")

    def __gt__(self, o):
        return self._cmp(o, "gt")

    def __ge__(self, o):
        return self._cmp(o, "ge")

    def __eq__(self, o):
        return self._cmp(o, "eq")

    def __ne__(self, o):
        return self._cmp(o, "ne")

    def __hash__(self):
        if self.is_const():
            return hash(self.cval())
        return hash(self.key())

    def __bool__(self):
        r = self != 0
        return r if isinstance(r, bool) else bool(r)

    # ---- conversions
    def __float__(self):
        if self.is_const():
            return float(self.cval())
        raise SymbolicLeak(f"float() of symbolic value {self}")

    def __int__(self):
        if self.is_const():
            return int(self.cval())
        return ENGINE.concretize_int(self)

    def __index__(self):
        if self.is_const() and self.cval().denominator == 1:
            return int(self.cval())
        raise SymbolicLeak(f"index from symbolic value {self}")

    def __round__(self, nd=None):
        if nd is None:
            return int(self.rint())
        return self        # decimal rounding is the identity in the real-number model (stated)

    def __complex__(self):
        return complex(float(self))

    def __format__(self, spec):
        if self.is_const():
            return format(float(self.cval()), spec) if spec else repr(float(self.cval()))
        return ENGINE.placeholder(self)

    def __str__(self):
        if self.is_const():
            c = self.cval()
            return str(int(c)) if c.denominator == 1 else repr(float(c))
        return ENGINE.placeholder(self) if ENGINE is not None else repr(self)

    def __repr__(self):
        if self.is_const():
            return f"SR({self.cval()})"
        try:
            return f"SR<{show_poly(self.n)}" + (f" / {show_den(self.d)}>" if self.d else ">")
        except Exception:       # pragma: no cover
            return "SR<?>"

    # ---- numpy element hooks
    @property
    def real(self):
        return self

    @property
    def imag(self):
        return ZERO()

    def conjugate(self):
        return self

    conj = conjugate

    def sqrt(self):
        return sqrt(self)

    def square(self):
        if self.root is not None:
            return self.root        # (sqrt X)^2 = X wherever the root is defined (also for rational radicands)
        return self * self

    def exp(self):
        return fn_atom("exp", self)

    def log(self):
        return fn_atom("log", self)

    def log10(self):
        return fn_atom("log", self) / fn_atom("log", SR.const(10))

    def cos(self):
        return trig(self)[0]

    def sin(self):
        return trig(self)[1]

    def arccos(self):
        return SAngle(self, sqrt(1 - self * self), kind="acos")

    def arctan2(self, x):
        return arctan2(self, lift(x))

    def rint(self):
        if self.is_const():
            return SR.const(_half_even(self.cval()))
        return fn_atom("rint", self)

    def floor(self):
        if self.is_const():
            return SR.const(math.floor(self.cval()))
        return fn_atom("floor", self)

    def ceil(self):
        return -((-self).floor())

    def __floor__(self):
        return self.floor()

    def __ceil__(self):
        return self.ceil()

    def __trunc__(self):
        return SR.const(int(self))

    def absolute(self):
        return abs(self)

    fabs = absolute

    def isnan(self):
        return False

    def isfinite(self):
        return True

    def item(self):
        return self

    def atomset(self):
        s = P.p_atoms(self.n)
        for k in self.d:
            s |= P.p_atoms(REG.key2poly[k])
        return frozenset(s)

    # ---- evaluation
    def feval(self, env) -> float:
        n = _peval(self.n, env)
        if self.d:
            dd = 1.0
            for k, e in self.d.items():
                dd *= _peval(REG.key2poly[k], env) ** e
            return n / dd
        return n

    def to_z3(self):
        if self._z is None:
            t = poly_z3(self.n)
            if self.d:
                t = t / poly_z3(_den_poly(self.d))
            self._z = t
        return self._z


def _const_sign(x: "SR"):
    """sign of an expression built only from pi and square roots of integers, by 60-digit evaluation
    (None if other atoms occur or the value is too close to zero to decide numerically)"""
    ats = x.atomset()
    if not ats:
        return None
    for a in ats:
        if REG.atoms[a].kind not in ("pi", "croot"):
            return None
    import mpmath as mp
    with mp.workdps(60):
        env = {}
        for a in ats:
            at = REG.atoms[a]
            env[a] = mp.pi if at.kind == "pi" else mp.sqrt(at.data)

        def pe(p):
            tot = mp.mpf(0)
            for m, c in p.items():
                v = mp.mpf(c.numerator) / c.denominator
                for at, e in m:
                    v *= env[at] ** e
                tot += v
            return tot
        val = pe(x.n)
        for k, e in x.d.items():
            val /= pe(REG.key2poly[k]) ** e
        if abs(val) < mp.mpf(10) ** -40:
            return None
        return 1 if val > 0 else -1


def subst(x: "SR", mapping: dict) -> "SR":
    """replace atoms by SR values (polynomial substitution in numerator and denominator factors)"""
    def psub(p):
        tot = ZERO()
        for m, c in p.items():
            term = SR.const(c)
            for at, e in m:
                base = mapping.get(at)
                if base is None:
                    base = SR.atom(at)
                term = term * (base ** e if e != 1 else base)
            tot = tot + term
        return tot
    if not (x.atomset() & set(mapping)):
        return x
    r = psub(x.n)
    for k, e in x.d.items():
        r = r / (psub(REG.key2poly[k]) ** e)
    return r


def expand_defs(x: "SR") -> "SR":
    """substitute symbols introduced with define() by their defining values (repeatedly)"""
    for _ in range(8):
        m = {a: REG.atoms[a].data for a in x.atomset() if REG.atoms[a].kind == "def"}
        if not m:
            return x
        x = subst(x, m)
    return x


def ZERO():
    if SR._zero is None:
        SR._zero = SR({}, {})
    return SR._zero


def _half_even(q: Fraction) -> int:
    f = math.floor(q)
    r = q - f
    if r < Fraction(1, 2):
        return f
    if r > Fraction(1, 2):
        return f + 1
    return f if f % 2 == 0 else f + 1


def _peval(p: P.Poly, env) -> float:
    tot = 0.0
    for m, c in p.items():
        v = float(c)
        for at, e in m:
            x = env[at]
            v *= x ** e if e != 1 else x
        tot += v
    return tot


def poly_z3(p: P.Poly):
    if not p:
        return z3.RealVal(0)
    atoms = REG.atoms
    terms = []
    for m, c in p.items():
        fs = []
        if c != 1 or not m:
            fs.append(z3.RealVal(str(c)) if c.denominator == 1 else z3.RealVal(f"{c.numerator}/{c.denominator}"))
        for at, e in m:
            z = atoms[at].z
            for _ in range(e):
                fs.append(z)
        terms.append(fs[0] if len(fs) == 1 else z3.Product(*fs))
    return terms[0] if len(terms) == 1 else z3.Sum(*terms)


def show_poly(p: P.Poly, limit=12):
    if not p:
        return "0"
    out = []
    for i, (m, c) in enumerate(sorted(p.items())):
        if i >= limit:
            out.append(f"... ({len(p)} terms)")
            break
        ms = "*".join(REG.atoms[a].name + (f"^{e}" if e != 1 else "") for a, e in m)
        out.append(f"{c}" + (f"*{ms}" if ms else "") if (c != 1 or not ms) else ms)
    return " + ".join(out)


def show_den(d):
    return "*".join(f"({show_poly(REG.key2poly[k])})" + (f"^{e}" if e != 1 else "") for k, e in d.items())


# --------------------------------------------------------------------------- lifting

class XFloat(float):
    """a concrete float that remembers the exact algebraic value it approximates (result of sqrt(<number>) inside a
    symbolic run).  Behaves as a float for concrete code; lifted into the symbolic domain it is exact."""

    def __new__(cls, v, sr):
        o = float.__new__(cls, v)
        o.sr = sr
        return o

    def _bin(self, o, f):
        if isinstance(o, (SR, SC, SAngle)):
            return f(self.sr, o)
        if isinstance(o, XFloat):
            r = f(self.sr, o.sr)
        elif isinstance(o, (int, float, Fraction, _np.integer, _np.floating)) and not isinstance(o, bool):
            r = f(self.sr, lift(o))
        else:
            return NotImplemented
        return XFloat(f(float(self), float(o)), r)

    def __mul__(self, o):
        return self._bin(o, lambda a, b: a * b)

    def __rmul__(self, o):
        return self._bin(o, lambda a, b: b * a)

    def __truediv__(self, o):
        return self._bin(o, lambda a, b: a / b)

    def __rtruediv__(self, o):
        return self._bin(o, lambda a, b: b / a)

    def __add__(self, o):
        return self._bin(o, lambda a, b: a + b)

    def __radd__(self, o):
        return self._bin(o, lambda a, b: b + a)

    def __sub__(self, o):
        return self._bin(o, lambda a, b: a - b)

    def __rsub__(self, o):
        return self._bin(o, lambda a, b: b - a)

    def __neg__(self):
        return XFloat(-float(self), -self.sr)


def lift(x):
    if isinstance(x, (SR, SC, SAngle)):
        return x
    if isinstance(x, XFloat):
        return x.sr
    if isinstance(x, (bool, _np.bool_)):
        return SR.const(1 if x else 0)
    if isinstance(x, (int, _np.integer)):
        return SR.const(int(x))
    if isinstance(x, (float, _np.floating)):
        return SR.const(snap_float(float(x)))
    if isinstance(x, Fraction):
        return SR.const(x)
    if isinstance(x, (complex, _np.complexfloating)):
        x = complex(x)
        return SC(SR.const(snap_float(x.real)), SR.const(snap_float(x.imag)))
    if isinstance(x, SB):
        return indicator(x)
    if isinstance(x, str) and ENGINE is not None:
        v = ENGINE.parse_token(x)
        if v is not None:
            return v
    if type(x).__module__.startswith("sympy.") and getattr(x, "is_number", False) and getattr(x, "is_real", False):
        return SR.const(snap_float(float(x)))      # e.g. wigner_3j(...).evalf(): the double it denotes
    return NotImplemented


def lift_strict(x):
    r = lift(x)
    if r is NotImplemented:
        raise TypeError(f"cannot lift {type(x).__name__} {x!r} into the symbolic domain")
    return r


# --------------------------------------------------------------------------- atoms

def var(name, positive=False, nonneg=False, integer=False) -> SR:
    if name in REG.by_name:
        return SR.atom(REG.by_name[name].idx)
    if integer:
        iz = z3.Int(name)
        a = REG.new_atom(name, "ivar", z=z3.ToReal(iz), data=iz, positive=positive, nonneg=nonneg)
    else:
        a = REG.new_atom(name, "var", positive=positive, nonneg=nonneg)
    REG.inputs.append(a.idx)
    if positive:
        REG.add_axiom(a.z > 0)
    elif nonneg:
        REG.add_axiom(a.z >= 0)
    return SR.atom(a.idx)


def undefined() -> SR:
    """x/0: an unconstrained symbol (nothing can be proved about it; evaluates to nan)"""
    a = REG.new_atom(f"undef!{len(REG.atoms)}", "undef", fe=lambda env: float("nan"))
    REG.uninterpreted += 1
    return SR.atom(a.idx)


def pi() -> SR:
    if REG.pi_atom is None:
        a = REG.new_atom("PI", "pi", fe=lambda env: math.pi, positive=True)
        REG.add_axiom(z3.And(a.z > z3.RealVal("314159265/100000000"), a.z < z3.RealVal("314159266/100000000")))
        REG.pi_atom = a
    return SR.atom(REG.pi_atom.idx)


def const_root(p: int) -> SR:
    """sqrt of a prime (or any positive integer treated atomically)"""
    name = f"rt{p}"
    if name in REG.by_name:
        return SR.atom(REG.by_name[name].idx)
    a = REG.new_atom(name, "croot", data=p, fe=lambda env, p=p: math.sqrt(p), positive=True)
    P.CONST_SQUARE[a.idx] = Fraction(p)
    REG.add_axiom(z3.And(a.z > 0, a.z * a.z == p))
    return SR.atom(a.idx)


def sqrt_const(q: Fraction) -> SR:
    if q < 0:
        raise SymbolicLeak(f"sqrt of negative constant {q}")
    if q == 0:
        return ZERO()
    a, b = _squarefree_split(q.numerator)
    c, d = _squarefree_split(q.denominator)
    # sqrt(num/den) = a/c * sqrt(b/d) = a/(c*d) * sqrt(b*d)
    coef = Fraction(a, c * d)
    r = SR.const(coef)
    for pr in _prime_factors(b * d):
        r = r * const_root(pr)
    return r


def sqrt(x) -> SR:
    x = lift_strict(x)
    if isinstance(x, SC):
        raise SymbolicLeak("sqrt of complex")
    x = _canon_arg(x)
    if x.is_const():
        return sqrt_const(x.cval())
    # split off the rational content so that sqrt(c*R) = sqrt(c)*sqrt(R) with R monic
    lc, g, p = P.p_primitive(x.n)
    # content of denominator is 1 by construction (factors are primitive)
    if lc < 0:
        coef = sqrt_const(-lc)
        rad = SR(P.p_scale(x.n, Fraction(1) / (-lc)), x.d)
    else:
        coef = sqrt_const(lc)
        rad = SR(P.p_scale(x.n, Fraction(1) / lc), x.d)
    # sqrt of a monomial in positive atoms splits into one root per atom: sqrt(m1*m2) = sqrt(m1)*sqrt(m2)
    split = _split_monomial_sqrt(rad)
    if split is not None:
        r = split * coef
        return r
    # even powers of positive atoms common to every term come out of the root: sqrt(a^2 * R) = a * sqrt(R), a > 0
    if len(rad.n) > 1 and g:
        out_m, keep = [], False
        for at, e in g:
            if at in P.POSITIVE and e >= 2:
                out_m.append((at, (e // 2)))
        if out_m:
            fac = SR.const(1)
            for at, h in out_m:
                fac = fac * SR.atom(at) ** h
            inner = x / (fac * fac)
            if len(inner.n) < len(x.n) or inner.key() != x.key():
                return fac * sqrt(inner)
    # perfect squares of single atoms known non-negative: sqrt(v^2) = v
    k = rad.key()
    hit = REG.sqrt_cache.get(k)
    if hit is None:
        # perfect square detection for monomials: sqrt(a^2e) with a >= 0
        simple = _monomial_sqrt(rad)
        if simple is not None:
            hit = simple
        else:
            radc = rad
            pos = rad.sign() == 1
            a = REG.new_atom(f"sq!{len(REG.atoms)}", "sqrt", data=radc,
                             fe=lambda env, r=radc: math.sqrt(max(r.feval(env), 0.0)),
                             positive=pos, nonneg=True, deps=radc.atomset())
            v = SR.atom(a.idx)
            v.root = radc
            if not radc.d:
                P.SQUARE_RULES[a.idx] = radc.n
            # definition: v >= 0 and v^2 * den == num  (division free); where the radicand may be negative (numpy: nan)
            # the definition is conditional on radicand >= 0
            lhs = a.z * a.z
            if radc.d:
                body = z3.And(a.z >= 0, lhs * poly_z3(_den_poly(radc.d)) == poly_z3(radc.n))
            else:
                body = z3.And(a.z >= 0, lhs == poly_z3(radc.n))
            sg = radc.sign()
            if sg in (0, 1, 2):
                REG.add_axiom(body)
            else:
                nonneg = radc >= 0
                REG.add_axiom(z3.Implies(nonneg.z, body) if isinstance(nonneg, SB) else body)
            hit = v
        REG.sqrt_cache[k] = hit
    if coef.is_const() and coef.cval() == 1:
        return hit
    r = hit * coef
    if coef.is_const() and hit.root is not None:
        pass   # tag set by __mul__
    elif hit.root is not None:
        r.root = x
    return r


def _split_monomial_sqrt(rad: SR):
    """sqrt(prod a_i^e_i / prod b_j^f_j) for positive atoms with more than one distinct atom (or an exponent > 1)"""
    if len(rad.n) != 1:
        return None
    (m, c), = rad.n.items()
    if c != 1:
        return None
    parts = [(at, e, False) for at, e in m]
    for k, e in rad.d.items():
        f = REG.key2poly[k]
        if len(f) != 1:
            return None
        (fm, fc), = f.items()
        if fc != 1 or len(fm) != 1 or fm[0][1] != 1:
            return None
        parts.append((fm[0][0], e, True))
    if not parts or any(at not in P.POSITIVE for at, _, _ in parts):
        return None
    if len(parts) == 1 and parts[0][1] == 1:
        return None            # a single atom to the first power: the ordinary path creates its root
    out = SR.const(1)
    for at, e, inv in parts:
        a = SR.atom(at)
        term = (a ** (e // 2)) if e // 2 else SR.const(1)
        if e % 2:
            term = term * sqrt(a)
        out = out / term if inv else out * term
    return out


def _monomial_sqrt(rad: SR):
    """sqrt of (monomial)/(monomial-ish factors) when every atom is non-negative and all exponents even"""
    if len(rad.n) != 1:
        return None
    (m, c), = rad.n.items()
    if c != 1:
        return None
    for at, e in m:
        if e % 2 or not (at in P.POSITIVE or at in P.NONNEG):
            return None
    for k, e in rad.d.items():
        f = REG.key2poly[k]
        if e % 2 or P.p_sign(f) not in (1, 2):
            return None
    n = {tuple((at, e // 2) for at, e in m): Fraction(1)}
    d = {k: e // 2 for k, e in rad.d.items()}
    return SR(n, d)


def trig(x: SR):
    """(cos x, sin x) through the structural cache (DESIGN 1.2)"""
    if isinstance(x, SAngle):
        return x.c, x.s
    x = _canon_arg(lift_strict(x))
    if x.is_const():
        c = x.cval()
        if c == 0:
            return SR.const(1), ZERO()
        raise SymbolicLeak(f"trig of non-zero constant {c}")
    k = x.key()
    hit = REG.trig_cache.get(k)
    if hit is not None:
        return hit
    nk = (-x).key()
    hit = REG.trig_cache.get(nk)
    if hit is not None:
        r = (hit[0], -hit[1])
        REG.trig_cache[k] = r
        return r
    pure_offset = False
    if not x.d and x.n:
        # (a) periodicity: terms 2*pi*(integer) - an even integer times PI times integer-valued symbols - are dropped
        if REG.pi_atom is not None:
            pi_idx = REG.pi_atom.idx
            keep, dropped = {}, False
            for m, c in x.n.items():
                ats = dict(m)
                if ats.get(pi_idx) == 1 and c.denominator == 1 and c.numerator % 2 == 0 and \
                        all(a == pi_idx or REG.atoms[a].kind == "ivar" for a in ats):
                    dropped = True
                    continue
                keep[m] = c
            if dropped:
                r = trig(SR.mk(keep, {})) if keep else (SR.const(1), ZERO())
                REG.trig_cache[k] = r
                return r
        # (b) declared phase offsets: cos/sin(y + z) by the addition theorem, z = the part that contains offset atoms
        if REG.phase_atoms:
            zpart = {m: c for m, c in x.n.items() if any(a in REG.phase_atoms for a, _ in m)}
            if zpart and len(zpart) < len(x.n):
                ypart = {m: c for m, c in x.n.items() if m not in zpart}
                cy, sy = trig(SR.mk(ypart, {}))
                cz, sz = trig(SR.mk(zpart, {}))
                r = (cy * cz - sy * sz, sy * cz + cy * sz)
                REG.trig_cache[k] = r
                return r
            pure_offset = bool(zpart)
    ca = REG.new_atom(f"cos!{len(REG.atoms)}", "cos", data=x, fe=lambda env, x=x: math.cos(x.feval(env)), deps=x.atomset())
    sa = REG.new_atom(f"sin!{len(REG.atoms)}", "sin", data=x, fe=lambda env, x=x: math.sin(x.feval(env)), deps=[ca.idx])
    REG.uninterpreted += 1
    REG.add_axiom(ca.z * ca.z + sa.z * sa.z == 1, sa.idx)
    REG.add_axiom(ca.z * ca.z + sa.z * sa.z == 1, ca.idx)
    r = (SR.atom(ca.idx), SR.atom(sa.idx))
    # congruence with earlier phases (cos/sin are functions): x == y -> same pair, x == -y -> mirrored pair
    if ENGINE is not None and ENGINE.o.get("trig_congruence", True) and len(REG.trig_args) <= 48:
        for (y, cy, sy) in REG.trig_args:
            if cy is None or not (x.atomset() & y.atomset()):
                continue
            e1 = x == y
            if isinstance(e1, SB):
                REG.union([sa.idx, *x.atomset(), *y.atomset(), cy, sy])
                ax = z3.Implies(e1.z, z3.And(ca.z == REG.atoms[cy].z, sa.z == REG.atoms[sy].z))
                REG.add_axiom(ax, sa.idx)
                REG.add_axiom(ax, ca.idx)
            e2 = x == -y
            if isinstance(e2, SB):
                ax = z3.Implies(e2.z, z3.And(ca.z == REG.atoms[cy].z, sa.z == -REG.atoms[sy].z))
                REG.add_axiom(ax, sa.idx)
                REG.add_axiom(ax, ca.idx)
    REG.trig_args.append((x, ca.idx, sa.idx))
    REG.trig_cache[k] = r
    if pure_offset:
        P.SQUARE_RULES[sa.idx] = (1 - r[0] * r[0]).n        # sin^2 = 1 - cos^2 for the offset phase (normal-form rule)
    return r


_FN_FE = {
    "exp": math.exp,
    "log": lambda v: math.log(v) if v > 0 else float("nan"),
    "rint": lambda v: float(round(v)),
    "floor": lambda v: float(math.floor(v)),
}


def declare_phase_offsets(*xs):
    """the atoms of these terms are phase offsets (e.g. a rigid translation): see trig()"""
    for x in xs:
        x = lift_strict(x)
        REG.phase_atoms |= set(x.atomset())


def _canon_arg(x: SR) -> SR:
    """canonical form of a function argument: even powers of square-root symbols replaced by their radicands"""
    if P.SQUARE_RULES and x.n:
        red = P.p_reduce(x.n)
        if red is not x.n:
            return SR.mk(red, dict(x.d)) if red else ZERO()
    return x


def fn_atom(fn: str, x: SR) -> SR:
    x = _canon_arg(lift_strict(x))
    if x.is_const():
        c = x.cval()
        if fn == "exp" and c == 0:
            return SR.const(1)
        if fn == "log" and c == 1:
            return ZERO()
        if fn == "rint":
            return SR.const(_half_even(c))
        if fn == "floor":
            return SR.const(math.floor(c))
    if fn == "rint" and x.n and not x.d and ENGINE is not None and ENGINE.o.get("rint_pull_integers"):
        # opt-in (harness states: no argument sits on an exact tie): rint(y + k) = rint(y) + k for integer-valued k,
        # k = integer constant + integer combinations of products of integer symbols
        ipart, rest = {}, {}
        for m, c in x.n.items():
            if c.denominator == 1 and all(REG.atoms[a].kind == "ivar" for a, _ in m):
                ipart[m] = c
            else:
                rest[m] = c
        if ipart and rest:
            return fn_atom("rint", SR.mk(rest, {})) + SR.mk(ipart, {})
    if fn == "rint" and x.n:
        # rint is odd (lemma L4, round-half-even): one symbol per argument up to sign
        lead = max(x.n, key=lambda m: (sum(e for _, e in m), m))
        if x.n[lead] < 0:
            return -fn_atom("rint", -x)
    k = (fn, x.key())
    hit = REG.fn_cache.get(k)
    if hit is not None:
        return hit
    f = _FN_FE[fn]
    a = REG.new_atom(f"{fn}!{len(REG.atoms)}", fn, data=x, fe=lambda env, x=x, f=f: f(x.feval(env)),
                     positive=(fn == "exp"), deps=x.atomset())
    REG.uninterpreted += 1
    v = SR.atom(a.idx)
    if fn == "exp":
        REG.add_axiom(a.z > 0)
    if fn in ("rint", "floor") and ENGINE is not None:
        ENGINE.on_round_atom(fn, a, x)
    REG.fn_cache[k] = v
    return v


def pow_atom(base: SR, e: SR) -> SR:
    """base**e for symbolic / non-half-integer e: one positive symbol per (base, e mod 1)"""
    base = lift_strict(base)
    e = lift_strict(e)
    # split e = k + e0 with k the constant integer part of e's constant term
    c0 = P.p_const_value(e.n) if not e.d else Fraction(0)
    kint = math.floor(c0)
    e0 = e - kint
    k = ("pow", base.key(), e0.key())
    hit = REG.fn_cache.get(k)
    if hit is None:
        a = REG.new_atom(f"pow!{len(REG.atoms)}", "pow", data=(base, e0),
                         fe=lambda env, b=base, ee=e0: b.feval(env) ** ee.feval(env), positive=True,
                         deps=base.atomset() | e0.atomset())
        REG.uninterpreted += 1
        REG.add_axiom(a.z > 0)
        hit = SR.atom(a.idx)
        REG.fn_cache[k] = hit
    return hit * base ** kint if kint else hit


def arctan2(y: SR, x: SR):
    rho = sqrt(x * x + y * y)
    return SAngle(x / rho, y / rho, kind="atan2")


def angle_value(ang: "SAngle") -> SR:
    """a real symbol for the principal value of an angle known through (cos, sin); cos/sin of the symbol resolve
    to the algebraic pair through the trig cache"""
    key = ("angle", ang.c.key(), ang.s.key())
    hit = REG.fn_cache.get(key)
    if hit is not None:
        return hit
    a = REG.new_atom(f"ang!{len(REG.atoms)}", "angle", data=ang,
                     fe=lambda env, g=ang: math.atan2(g.s.feval(env), g.c.feval(env)),
                     deps=ang.c.atomset() | ang.s.atomset())
    REG.uninterpreted += 1
    v = SR.atom(a.idx)
    REG.trig_cache[v.key()] = (ang.c, ang.s)
    REG.trig_args.append((v, None, None))
    REG.fn_cache[key] = v
    return v


def where(c, a, b):
    """If(c, a, b) without forking"""
    if isinstance(c, (bool, _np.bool_)):
        return a if c else b
    a, b = lift_strict(a), lift_strict(b)
    i = indicator(c)
    if isinstance(a, SC) or isinstance(b, SC):
        a, b = as_sc(a), as_sc(b)
        return SC(i * a.re + (1 - i) * b.re, i * a.im + (1 - i) * b.im)
    return i * a + (1 - i) * b


# --------------------------------------------------------------------------- SC


class SC:
    __slots__ = ("re", "im")

    def __init__(self, re, im):
        self.re = lift_strict(re) if not isinstance(re, SR) else re
        self.im = lift_strict(im) if not isinstance(im, SR) else im

    @property
    def real(self):
        return self.re

    @property
    def imag(self):
        return self.im

    def conjugate(self):
        return SC(self.re, -self.im)

    conj = conjugate

    def __add__(self, o):
        o = lift(o)
        if o is NotImplemented:
            return NotImplemented
        o = as_sc(o)
        return SC(self.re + o.re, self.im + o.im)

    __radd__ = __add__

    def __neg__(self):
        return SC(-self.re, -self.im)

    def __pos__(self):
        return self

    def __sub__(self, o):
        o = lift(o)
        if o is NotImplemented:
            return NotImplemented
        o = as_sc(o)
        return SC(self.re - o.re, self.im - o.im)

    def __rsub__(self, o):
        o = lift(o)
        if o is NotImplemented:
            return NotImplemented
        return as_sc(o) - self

    def __mul__(self, o):
        o = lift(o)
        if o is NotImplemented:
            return NotImplemented
        if isinstance(o, SR):
            return SC(self.re * o, self.im * o)
        if isinstance(o, SAngle):
            raise SymbolicLeak("complex * angle only supported for pure imaginary integer factors")
        return SC(self.re * o.re - self.im * o.im, self.re * o.im + self.im * o.re)

    __rmul__ = __mul__

    def __truediv__(self, o):
        o = lift(o)
        if o is NotImplemented:
            return NotImplemented
        if isinstance(o, SR):
            return SC(self.re / o, self.im / o)
        den = o.re * o.re + o.im * o.im
        num = self * o.conjugate()
        return SC(num.re / den, num.im / den)

    def __rtruediv__(self, o):
        o = lift(o)
        if o is NotImplemented:
            return NotImplemented
        return as_sc(o) / self

    def __pow__(self, k):
        if isinstance(k, SR) and k.is_const():
            k = k.cval()
        if isinstance(k, (float, _np.floating)):
            k = snap_float(float(k))
        if isinstance(k, Fraction) and k.denominator == 1:
            k = int(k)
        if not isinstance(k, (int, _np.integer)):
            raise SymbolicLeak("complex power with non-integer exponent")
        k = int(k)
        if k < 0:
            return SC(SR.const(1), ZERO()) / (self ** (-k))
        r = SC(SR.const(1), ZERO())
        b = self
        while k:
            if k & 1:
                r = r * b
            k >>= 1
            if k:
                b = b * b
        return r

    def __abs__(self):
        return sqrt(self.re * self.re + self.im * self.im)

    def absolute(self):
        return abs(self)

    def exp(self):
        c, s = trig(self.im)
        m = self.re.exp() if not (self.re.is_const() and self.re.cval() == 0) else SR.const(1)
        return SC(m * c, m * s)

    def square(self):
        return self * self

    def __eq__(self, o):
        o = lift(o)
        if o is NotImplemented:
            return NotImplemented
        o = as_sc(o)
        a = self.re == o.re
        b = self.im == o.im
        if isinstance(a, bool):
            return b if a else False
        if isinstance(b, bool):
            return a if b else False
        return a & b

    def __ne__(self, o):
        r = self.__eq__(o)
        if r is NotImplemented:
            return r
        return (not r) if isinstance(r, bool) else ~r

    def __hash__(self):
        return hash((self.re, self.im))

    def __bool__(self):
        r = self != 0
        return r if isinstance(r, bool) else bool(r)

    def __complex__(self):
        return complex(float(self.re), float(self.im))

    def is_const(self):
        return self.re.is_const() and self.im.is_const()

    def isnan(self):
        return False

    def item(self):
        return self

    def __repr__(self):
        return f"SC({self.re!r}, {self.im!r})"

    def feval(self, env):
        return complex(self.re.feval(env), self.im.feval(env))


def as_sc(x) -> SC:
    if isinstance(x, SC):
        return x
    x = lift_strict(x)
    if isinstance(x, SC):
        return x
    return SC(x, ZERO())


# --------------------------------------------------------------------------- SAngle


class SAngle:
    """an angle known through its cosine and sine (both SR).  value modulo 2*pi."""
    __slots__ = ("c", "s", "kind")

    def __init__(self, c, s, kind="free"):
        self.c, self.s, self.kind = c, s, kind

    def cos(self):
        return self.c

    def sin(self):
        return self.s

    def times(self, k: int) -> "SAngle":
        if k == 1:
            return self
        if k == 0:
            return SAngle(SR.const(1), ZERO(), kind="zero")
        if k < 0:
            return (-self).times(-k)
        z = SC(self.c, self.s) ** k
        return SAngle(z.re, z.im, kind="mult")

    def __neg__(self):
        return SAngle(self.c, -self.s, kind=self.kind)

    def __mul__(self, o):
        if isinstance(o, (complex, _np.complexfloating)):
            o = complex(o)
            if o.real != 0 or o.imag != int(o.imag):
                raise SymbolicLeak("angle * complex: only integer imaginary factors")
            return SImAngle(self.times(int(o.imag)))
        if isinstance(o, SC):
            if not (o.is_const() and o.re.cval() == 0 and o.im.cval().denominator == 1):
                raise SymbolicLeak("angle * complex: only integer imaginary factors")
            return SImAngle(self.times(int(o.im.cval())))
        if isinstance(o, SR) and o.is_const():
            o = o.cval()
        if isinstance(o, (float, _np.floating)):
            o = snap_float(float(o))
        if isinstance(o, (int, _np.integer, Fraction)) and Fraction(o).denominator == 1:
            return self.times(int(o))
        raise SymbolicLeak(f"angle * {o!r}")

    __rmul__ = __mul__

    def __add__(self, o):
        if isinstance(o, SAngle):
            z = SC(self.c, self.s) * SC(o.c, o.s)
            return SAngle(z.re, z.im, kind="sum")
        o = lift(o)
        if isinstance(o, SR):
            # adding an integer multiple of 2*pi leaves (cos, sin) unchanged
            q = o / (2 * pi())
            if q.is_const() and q.cval().denominator == 1:
                return SAngle(self.c, self.s, kind=self.kind)
            if q.is_const() and q.cval().denominator == 2:
                return SAngle(-self.c, -self.s, kind=self.kind)       # odd multiple of pi
            if q.is_const() and q.cval().denominator == 4:
                k = q.cval().numerator % 4                              # odd multiple of pi/2
                return SAngle(-self.s, self.c, kind=self.kind) if k == 1 else SAngle(self.s, -self.c, kind=self.kind)
            if o.is_const() and o.cval() == 0:
                return self
        raise SymbolicLeak(f"angle + {o!r}")

    __radd__ = __add__

    def __sub__(self, o):
        if isinstance(o, SAngle):
            return self + (-o)
        return self + (-lift_strict(o))

    # range-based comparisons (principal value in (-pi, pi] for atan2 / free; [0,pi] for acos)
    def __lt__(self, o):
        o = lift(o)
        if isinstance(o, SR) and o.is_const() and o.cval() == 0:
            return self.s < 0
        raise SymbolicLeak("angle comparison only against 0")

    def __ge__(self, o):
        r = self.__lt__(o)
        return (not r) if isinstance(r, bool) else ~r

    def feval(self, env):
        return math.atan2(self.s.feval(env), self.c.feval(env))

    def __repr__(self):
        return f"SAngle(cos={self.c!r}, sin={self.s!r})"


class SImAngle:
    """i * angle; only exp() is meaningful"""
    __slots__ = ("a",)

    def __init__(self, a):
        self.a = a

    def exp(self):
        return SC(self.a.c, self.a.s)

    def __neg__(self):
        return SImAngle(-self.a)

    def __mul__(self, o):
        if isinstance(o, SR) and o.is_const():
            o = o.cval()
        if isinstance(o, (float, _np.floating)):
            o = snap_float(float(o))
        if isinstance(o, (int, _np.integer, Fraction)) and Fraction(o).denominator == 1:
            return SImAngle(self.a.times(int(o)))
        raise SymbolicLeak(f"i*angle * {o!r}")

    __rmul__ = __mul__
