"""symx: bounded symbolic execution of real numpy code with z3 (see /verif/DESIGN.md)."""
