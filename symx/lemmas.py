"""One-variable facts about rint / floor, each discharged by the solver from the definition at the
start of a run (DESIGN 1.2).  rint is numpy's round-half-to-even:
    D(x, n) :=  n integer  and  |x - n| <= 1/2  and  (|x - n| = 1/2  ->  n even)
"""
import time
import z3


def _D(x, n):
    half = z3.RealVal("1/2")
    d = x - z3.ToReal(n)
    return z3.And(d <= half, -d <= half, z3.Implies(z3.Or(d == half, -d == half), n % 2 == 0))


def prove_all(timeout_ms=20000):
    x, y = z3.Reals("x y")
    n, m, k = z3.Ints("n m k")
    half = z3.RealVal("1/2")
    goals = {
        "rint unique: D(x,n) & D(x,m) -> n = m": z3.Implies(z3.And(_D(x, n), _D(x, m)), n == m),
        "rint L1: D(x,n) -> |x - n| <= 1/2": z3.Implies(_D(x, n), z3.And(x - z3.ToReal(n) <= half, z3.ToReal(n) - x <= half)),
        "rint L2: D(x,n) & no tie & D(x+k,m) -> m = n + k":
            z3.Implies(z3.And(_D(x, n), x - z3.ToReal(n) != half, z3.ToReal(n) - x != half, _D(x + z3.ToReal(k), m)), m == n + k),
        "rint L3: |y| <= 1/2 & D(y,n) -> n = 0": z3.Implies(z3.And(y <= half, -y <= half, _D(y, n)), n == 0),
        "rint L4: D(x,n) & D(-x,m) -> m = -n": z3.Implies(z3.And(_D(x, n), _D(-x, m)), m == -n),
        "floor: n <= x < n+1 & m <= x < m+1 -> n = m":
            z3.Implies(z3.And(z3.ToReal(n) <= x, x < z3.ToReal(n) + 1, z3.ToReal(m) <= x, x < z3.ToReal(m) + 1), n == m),
    }
    out = dict(name="lemmas", obligations=0, discharged=0, undecided=0, solver_s=0.0, samples=[], violations=[],
               errors=[], functions=[], lemmas=list(goals), wall_s=0.0)
    t0 = time.time()
    for name, g in goals.items():
        s = z3.Solver()
        s.set("timeout", timeout_ms)
        s.add(z3.Not(g))
        r = s.check()
        out["obligations"] += 1
        if r == z3.unsat:
            out["discharged"] += 1
            out["samples"].append(dict(obligation=name, verdict="unsat"))
        else:
            out["undecided"] += 1
            out["errors"].append(dict(kind="lemma-not-proved", msg=f"{name}: {r}", config={}))
    out["solver_s"] = out["wall_s"] = time.time() - t0
    return out
