"""numpy facade: real numpy on object arrays of proxy scalars (DESIGN 1.3).

Only what cannot work on object data is overridden; everything else is `numpy` itself.
"""
from __future__ import annotations

import builtins
from fractions import Fraction

import numpy as _np

from . import scalar as S
from .scalar import SR, SC, SB, SAngle, lift, lift_strict

_CMP = {_np.less, _np.less_equal, _np.greater, _np.greater_equal, _np.equal, _np.not_equal}
_LOGIC = {_np.logical_and: _np.bitwise_and, _np.logical_or: _np.bitwise_or, _np.logical_xor: _np.bitwise_xor}

_TRUE = None


def _rdt(a):
    """the real numpy dtype (DArr/BArr report the declared one)"""
    return _np.ndarray.dtype.__get__(a) if isinstance(a, _np.ndarray) else _np.asarray(a).dtype


def const_sb(b: bool) -> SB:
    import z3
    return SB(z3.BoolVal(bool(b)), (lambda env, b=bool(b): b))


def _norm_bool(res):
    """object array of bool/SB -> bool ndarray if fully concrete, else SArr of SB"""
    if not isinstance(res, _np.ndarray):
        return res
    flat = res.ravel()
    anysym = False
    for x in flat:
        if isinstance(x, SB):
            anysym = True
            break
    if not anysym:
        return _np.array(res.tolist(), dtype=bool).reshape(res.shape).view(CArr)
    out = _np.empty(res.shape, dtype=object)
    for idx in _np.ndindex(res.shape):
        x = res[idx]
        out[idx] = x if isinstance(x, SB) else const_sb(bool(x))
    r = out.view(BArr)
    r._dt = _np.dtype(bool)
    return r


def _is_symbolic_obj(a):
    return isinstance(a, _np.ndarray) and _rdt(a) == object


PROTECTED = []     # (name, array): input arrays under a frame condition (C18); writes that reach their memory are logged
WRITES = []        # (name, 'file:line function') of every write that touched a protected array


def _note_write(target):
    if not PROTECTED:
        return
    for name, arr in PROTECTED:
        try:
            hit = target is arr or _np.may_share_memory(target, arr)
        except Exception:
            hit = False
        if hit:
            import sys as _sys
            f = _sys._getframe(2)
            site = "?"
            while f is not None:
                fn = f.f_code.co_filename
                if "/PyMatterSim/" in fn:
                    site = f"{fn.split('/PyMatterSim/')[-1]}:{f.f_lineno} {f.f_code.co_name}"
                    break
                f = f.f_back
            if site != "?":           # writes made by the harness itself (building inputs) are not the code under test
                WRITES.append((name, site))


class CArr(_np.ndarray):
    """concrete (int/bool/float) ndarray that accepts symbolic boolean masks / constant proxies as indices"""

    def _inplace(name):
        def f(self, o):
            _note_write(self)
            return getattr(_np.ndarray, name)(self, o)
        f.__name__ = name
        return f

    for _n in ("__iadd__", "__isub__", "__imul__", "__itruediv__", "__ifloordiv__", "__imod__", "__ipow__", "__iand__", "__ior__",
               "__ixor__"):
        locals()[_n] = _inplace(_n)
    del _n, _inplace

    def __array_wrap__(self, arr, context=None, return_scalar=False):
        if arr.ndim == 0:
            return arr[()]          # reductions give numpy scalars, as for plain ndarrays
        return arr.view(CArr) if _rdt(arr) != object else arr

    def __getitem__(self, key):
        return _np.ndarray.__getitem__(self, _concretize_key(key))

    def __setitem__(self, key, value):
        _note_write(self)
        key = _concretize_key(key)
        if isinstance(value, SR):
            if not value.is_const():
                raise S.SymbolicLeak("symbolic value stored into a concrete array")
            value = builtins.int(value.cval()) if self.dtype.kind in "iu" else builtins.float(value.cval())
        elif isinstance(value, _np.ndarray) and _rdt(value) == object:
            conv = _np.empty(value.shape, dtype=self.dtype)
            for idx in _np.ndindex(value.shape):
                v = value[idx]
                if isinstance(v, SR):
                    if not v.is_const():
                        raise S.SymbolicLeak("symbolic value stored into a concrete array")
                    v = builtins.int(v.cval()) if self.dtype.kind in "iu" else builtins.float(v.cval())
                elif isinstance(v, SB):
                    v = builtins.bool(v)
                conv[idx] = v
            value = conv
        _np.ndarray.__setitem__(self, key, value)


def carr(a):
    a = _np.asarray(a)
    return a.view(CArr) if _rdt(a) != object else a


class SArr(_np.ndarray):
    """object ndarray whose elements are proxy scalars; remembers the dtype the code asked for"""
    _dt = None

    def __array_finalize__(self, obj):
        self._dt = getattr(obj, "_dt", None)

    def __array_ufunc__(self, ufunc, method, *inputs, out=None, **kwargs):
        ins = tuple(x.view(_np.ndarray) if isinstance(x, SArr) else x for x in inputs)
        if out is not None:
            for o in out:
                if isinstance(o, _np.ndarray):
                    _note_write(o)
            kwargs["out"] = tuple(x.view(_np.ndarray) if isinstance(x, SArr) else x for x in out)
        if method == "__call__":
            if ufunc in _CMP:
                kwargs.setdefault("dtype", object)
                res = ufunc(*ins, **kwargs)
                return _norm_bool(res)
            if ufunc in _LOGIC:
                ins = tuple(_boolify(x) for x in ins)
                res = _LOGIC[ufunc](*ins, **kwargs)
                return _norm_bool(res) if isinstance(res, _np.ndarray) else res
            if ufunc is _np.logical_not or ufunc is _np.invert:
                ins = tuple(_boolify(x) for x in ins)
                res = _np.invert(*ins, **kwargs)
                return _norm_bool(res) if isinstance(res, _np.ndarray) else res
            if ufunc is _np.isnan or ufunc is _np.isinf:
                return _np.zeros(_np.shape(ins[0]), dtype=bool)
            if ufunc is _np.isfinite:
                return _np.ones(_np.shape(ins[0]), dtype=bool)
        res = getattr(ufunc, method)(*ins, **kwargs)
        if out is not None:
            return out[0] if len(out) == 1 else out
        if isinstance(res, _np.ndarray) and _rdt(res) == object:
            if ufunc in (_np.multiply, _np.bitwise_and, _np.bitwise_or) and res.size and \
                    builtins.all(isinstance(v, (SB, builtins.bool, _np.bool_)) for v in res.ravel()):
                return _norm_bool(res)
            r = res.view(SArr)
            r._dt = self._dt if not isinstance(self, BArr) else None
            return r
        return res

    def __setitem__(self, key, value):
        _note_write(self)
        key = _concretize_key(key)
        if isinstance(value, _np.ndarray) and _rdt(value) == object:
            pass
        else:
            value = _lift_any(value)
        if self._dt is not None and self._dt.kind == "f":
            # numpy discards the imaginary part when a complex value is stored into a float array (ComplexWarning)
            if isinstance(value, SC):
                value = value.re
            elif isinstance(value, _np.ndarray) and _rdt(value) == object and value.size and \
                    builtins.any(isinstance(v, SC) for v in value.ravel()):
                value = _map(value, lambda v: v.re if isinstance(v, SC) else v)
        _np.ndarray.__setitem__(self, key, value)

    def __getitem__(self, key):
        key = _concretize_key(key)
        r = _np.ndarray.__getitem__(self, key)
        return r

    def astype(self, dtype, *a, **k):
        dtype = _dt(dtype)
        dt = _np.dtype(dtype) if not isinstance(dtype, str) or dtype != "object" else _np.dtype(object)
        if dt.kind in "fc" or dt == object:
            r = self.copy()
            r._dt = dt
            return r
        if dt.kind in "iu":
            out = _np.empty(self.shape, dtype=dt)
            for idx in _np.ndindex(self.shape):
                out[idx] = builtins.int(self[idx])
            return out.view(CArr)
        if dt.kind == "b":
            out = _np.empty(self.shape, dtype=bool)
            for idx in _np.ndindex(self.shape):
                out[idx] = builtins.bool(self[idx])
            return out
        raise S.SymbolicLeak(f"astype({dtype}) on symbolic array")

    @property
    def real(self):
        return _map(self, lambda x: x.real if hasattr(x, "real") else x)

    @property
    def imag(self):
        return _map(self, lambda x: x.imag if hasattr(x, "imag") else 0)

    def conj(self):
        return _map(self, lambda x: x.conjugate())

    conjugate = conj

    def round(self, decimals=0, out=None):
        if decimals == 0:
            return _map(self, lambda x: x.rint())
        return self.copy()

    def any(self, axis=None, **kw):
        if axis is None:
            r = False
            for x in self.ravel():
                if isinstance(x, (SR, SC)):
                    x = (x != 0)
                r = r | x if not isinstance(r, bool) or not r else True
                if r is True:
                    return True
            return r if isinstance(r, bool) else builtins.bool(r)
        return _np.ndarray.any(self, axis=axis, **kw)

    def all(self, axis=None, **kw):
        if axis is None:
            r = True
            for x in self.ravel():
                if isinstance(x, (SR, SC)):
                    x = (x != 0)
                if isinstance(r, bool):
                    r = x if r else False
                else:
                    r = r & x
                if r is False:
                    return False
            return r if isinstance(r, bool) else builtins.bool(r)
        return _np.ndarray.all(self, axis=axis, **kw)

    def tolist(self):
        return _np.ndarray.tolist(self)

    def min(self, axis=None, out=None, keepdims=False, **kw):
        return _fold_minmax(self, axis, keepdims, True)

    def max(self, axis=None, out=None, keepdims=False, **kw):
        return _fold_minmax(self, axis, keepdims, False)


def _mm(a, b, is_min):
    a, b = lift_strict(a), lift_strict(b)
    c = (a <= b) if is_min else (a >= b)
    if isinstance(c, builtins.bool):
        return a if c else b
    return S.where(c, a, b)


def _fold_minmax(arr, axis, keepdims, is_min):
    """min/max as nested If terms (no forking on the order of symbolic values)"""
    a = arr.view(_np.ndarray)
    if axis is None:
        flat = a.ravel()
        if flat.size == 0:
            raise ValueError("zero-size array to reduction operation")
        r = flat[0]
        for x in flat[1:]:
            r = _mm(r, x, is_min)
        if keepdims:
            o = _np.empty((1,) * a.ndim, dtype=object)
            o[(0,) * a.ndim] = r
            return o.view(SArr)
        return r
    ax = axis if axis >= 0 else a.ndim + axis
    moved = _np.moveaxis(a, ax, 0)
    out = _np.empty(moved.shape[1:], dtype=object)
    for idx in _np.ndindex(out.shape):
        r = moved[(0,) + idx]
        for k in builtins.range(1, moved.shape[0]):
            r = _mm(r, moved[(k,) + idx], is_min)
        out[idx] = r
    if keepdims:
        out = _np.expand_dims(out, ax)
    r = out.view(SArr)
    r._dt = getattr(arr, "_dt", None)
    return r


def f_min(a, axis=None, out=None, keepdims=False, **kw):
    if isinstance(a, _np.ndarray) and _rdt(a) == object:
        return _fold_minmax(a, axis, keepdims, True)
    return _np.min(a, axis=axis, keepdims=keepdims, **kw)


def f_max(a, axis=None, out=None, keepdims=False, **kw):
    if isinstance(a, _np.ndarray) and _rdt(a) == object:
        return _fold_minmax(a, axis, keepdims, False)
    return _np.max(a, axis=axis, keepdims=keepdims, **kw)


class DArr(SArr):
    """SArr that also *reports* the declared dtype (for code that branches on `arr.dtype == "complex128"`)"""

    @property
    def dtype(self):
        return self._dt if self._dt is not None else _np.ndarray.dtype.__get__(self)


class BArr(SArr):
    """symbolic boolean mask: reports dtype bool (so that `mask.dtype == "bool"` branches as in production);
    mask.sum() / mask.astype(bool) concretise the mask (one solver-decided fork per undetermined element)"""

    @property
    def dtype(self):
        return _np.dtype(bool)

    def concretise(self):
        out = _np.empty(self.shape, dtype=bool)
        for idx in _np.ndindex(self.shape):
            out[idx] = builtins.bool(_np.ndarray.__getitem__(self, idx))
        return out.view(CArr)

    def sum(self, axis=None, **kw):
        return self.concretise().sum(axis=axis, **kw)

    def astype(self, dtype, *a, **k):
        dtype = _dt(dtype)
        if _np.dtype(dtype).kind == "b":
            return self
        if _np.dtype(dtype).kind in "iu":
            return self.concretise().astype(dtype)
        return _map(self, lambda x: S.indicator(x) if isinstance(x, SB) else lift_strict(x))

    def copy(self, *a, **k):
        r = _np.ndarray.copy(self, *a, **k)
        return r

    def mean(self, axis=None, **kw):
        ind = _map(self, lambda x: S.indicator(x) if isinstance(x, SB) else lift_strict(x))
        ind._dt = _np.dtype(float)
        return _np.ndarray.mean(ind.view(SArr), axis=axis, **kw)


def declared(arr, dt):
    r = arr.view(DArr)
    r._dt = _np.dtype(dt)
    return r


def _boolify(x):
    """object arrays of python bools -> const SB so that & | ~ have boolean meaning"""
    if isinstance(x, _np.ndarray) and _rdt(x) == object:
        out = _np.empty(x.shape, dtype=object)
        for idx in _np.ndindex(x.shape):
            v = x[idx]
            out[idx] = v if isinstance(v, SB) else const_sb(builtins.bool(v))
        return out
    return x


def _map(a, f):
    out = _np.empty(a.shape, dtype=object)
    for idx in _np.ndindex(a.shape):
        out[idx] = f(a[idx])
    r = out.view(SArr)
    r._dt = getattr(a, "_dt", None)
    return r


def _concretize_key(key):
    if isinstance(key, tuple):
        return tuple(_concretize_key(k) for k in key)
    if isinstance(key, SR):
        return key.__index__()
    if isinstance(key, _np.ndarray) and _rdt(key) == object and key.size:
        first = key.ravel()[0]
        if isinstance(first, (SB, bool, _np.bool_)):
            out = _np.empty(key.shape, dtype=bool)
            for idx in _np.ndindex(key.shape):
                out[idx] = builtins.bool(key[idx])
            return out
        if isinstance(first, SR):
            out = _np.empty(key.shape, dtype=_np.int64)
            for idx in _np.ndindex(key.shape):
                out[idx] = key[idx].__index__()
            return out
    return key


def _lift_any(v):
    if isinstance(v, (SR, SC, SB, SAngle)):
        return v
    if isinstance(v, str):
        return lift_strict(v) if S.ENGINE is not None and S.ENGINE.parse_token(v) is not None else SR.const(S.snap_float(builtins.float(v)))
    if isinstance(v, (list, tuple)):
        return sarr(v)
    if isinstance(v, _np.ndarray):
        if _rdt(v) == object:
            return v
        return sarr(v)
    r = lift(v)
    if r is NotImplemented:
        raise TypeError(f"cannot store {type(v).__name__} in symbolic array")
    return r


def sarr(values, dt=None) -> SArr:
    """build an SArr (elements lifted) from nested lists / arrays / scalars"""
    if isinstance(values, SArr):
        r = values.copy()
        if dt is not None:
            r._dt = dt
        return r
    if isinstance(values, _np.ndarray) and _rdt(values) != object:
        out = _np.empty(values.shape, dtype=object)
        for idx in _np.ndindex(values.shape):
            out[idx] = lift_strict(values[idx].item())
        r = out.view(SArr)
        r._dt = dt or values.dtype
        return r
    shape = _shape_of(values)
    out = _np.empty(shape, dtype=object)
    _fill(out, values, ())
    r = out.view(SArr)
    r._dt = dt
    return r


def _shape_of(v):
    if isinstance(v, _np.ndarray):
        return v.shape
    if isinstance(v, (list, tuple)):
        if not v:
            return (0,)
        return (len(v),) + _shape_of(v[0])
    return ()


def _fill(out, v, idx):
    if isinstance(v, _np.ndarray) and v.ndim == 0:
        v = v.item()
    if isinstance(v, (list, tuple, _np.ndarray)):
        for i, x in enumerate(v):
            _fill(out, x, idx + (i,))
    else:
        out[idx] = _lift_any(v) if not isinstance(v, (SR, SC, SB, SAngle)) else v


def _has_symbolic(x) -> bool:
    if isinstance(x, (SR, SC, SB, SAngle)):
        return True
    if isinstance(x, _np.ndarray):
        return _rdt(x) == object
    if isinstance(x, (list, tuple)):
        return builtins.any(_has_symbolic(y) for y in x)
    if isinstance(x, str):
        return S.ENGINE is not None and S.ENGINE.parse_token(x) is not None
    return False


def _dt(dtype):
    """the facade versions of the builtins stand for the builtin types when used as a dtype"""
    from . import builtins_f
    if dtype is builtins_f.sym_int:
        return builtins.int
    if dtype is builtins_f.sym_float:
        return builtins.float
    return dtype


def _is_intlike_dtype(dtype):
    dtype = _dt(dtype)
    if dtype is None:
        return False
    try:
        return _np.dtype(dtype).kind in "iub"
    except TypeError:
        return False


def _all_int(values):
    if isinstance(values, (bool, _np.bool_, int, _np.integer)):
        return True
    if isinstance(values, _np.ndarray):
        return values.dtype.kind in "iub"
    if isinstance(values, (list, tuple)):
        return len(values) > 0 and builtins.all(_all_int(v) for v in values)
    if isinstance(values, range):
        return True
    return False


# --------------------------------------------------------------------------- creation

def f_zeros(shape, dtype=float, **kw):
    dtype = _dt(dtype)
    if _is_intlike_dtype(dtype):
        return _np.zeros(shape, dtype=dtype).view(CArr)
    out = _np.empty(shape, dtype=object)
    z = S.ZERO() if _np.dtype(dtype).kind != "c" else None
    for idx in _np.ndindex(out.shape):
        out[idx] = S.ZERO() if z is not None else SC(S.ZERO(), S.ZERO())
    r = out.view(SArr)
    r._dt = _np.dtype(dtype)
    return r


def f_ones(shape, dtype=float, **kw):
    dtype = _dt(dtype)
    if _is_intlike_dtype(dtype):
        return _np.ones(shape, dtype=dtype).view(CArr)
    return f_zeros(shape, dtype) + 1


def f_empty(shape, dtype=float, **kw):
    dtype = _dt(dtype)
    if _is_intlike_dtype(dtype) or (dtype is object):
        return _np.empty(shape, dtype=dtype)
    return f_zeros(shape, dtype)


def f_full(shape, fill_value, dtype=None, **kw):
    dtype = _dt(dtype)
    if not _has_symbolic(fill_value) and (_is_intlike_dtype(dtype) or (dtype is None and _all_int(fill_value))):
        return _np.full(shape, fill_value, dtype=dtype)
    out = _np.empty(shape, dtype=object)
    v = _lift_any(fill_value)
    for idx in _np.ndindex(out.shape):
        out[idx] = v
    r = out.view(SArr)
    r._dt = _np.dtype(dtype) if dtype is not None else _np.dtype(float)
    return r


def f_zeros_like(a, dtype=None, **kw):
    dtype = _dt(dtype)
    if dtype is None:
        if isinstance(a, SArr) or (isinstance(a, _np.ndarray) and _rdt(a) == object):
            dtype = getattr(a, "_dt", None) or _infer_dt(a)
        else:
            a = _np.asarray(a) if not _has_symbolic(a) else sarr(a)
            dtype = a.dtype if _rdt(a) != object else float
    return f_zeros(_np.shape(a), dtype)


def f_ones_like(a, dtype=None, **kw):
    return f_zeros_like(a, dtype) + 1


def _f_array(obj, dtype=None, copy=True, **kw):
    dtype = _dt(dtype)
    if isinstance(obj, SArr):
        r = obj.copy() if copy else obj
        if dtype is not None and not _is_intlike_dtype(dtype):
            r._dt = _np.dtype(dtype)
        elif _is_intlike_dtype(dtype):
            return obj.astype(dtype)
        return r
    if isinstance(obj, _np.ndarray) and _rdt(obj) != object:
        if dtype is None or _is_intlike_dtype(dtype) or obj.dtype.kind in "iub" and dtype is None:
            return _np.array(obj, dtype=dtype, copy=copy, **kw)
        if obj.dtype.kind in "iub" and not _is_intlike_dtype(dtype):
            return sarr(obj, _np.dtype(dtype))
        return sarr(obj, _np.dtype(dtype))
    if _is_intlike_dtype(dtype) and not _has_symbolic(obj):
        return _np.array(obj, dtype=dtype, **kw)
    if dtype is None and not _has_symbolic(obj):
        probe = _np.array(obj, **kw)
        if probe.dtype.kind in "iubUSO" and _rdt(probe) != object:
            return probe
        if _rdt(probe) == object:
            return probe
        return sarr(probe, probe.dtype)
    if dtype is object:
        return _np.array(obj, dtype=object)
    if isinstance(obj, (list, tuple)) and obj and builtins.all(isinstance(x, _np.ndarray) for x in obj):
        # list of equally shaped arrays -> stack
        parts = [x if _rdt(x) == object else sarr(x) for x in obj]
        out = _np.empty((len(parts),) + parts[0].shape, dtype=object)
        for i, p in enumerate(parts):
            out[i] = p
        r = out.view(SArr)
        r._dt = _np.dtype(dtype) if dtype is not None else getattr(parts[0], "_dt", None)
        return r
    r = sarr(obj, _np.dtype(dtype) if dtype is not None else None)
    if r._dt is None:
        r._dt = _infer_dt(r)
    if _is_intlike_dtype(dtype):
        return r.astype(dtype)
    return r


def f_array(obj, dtype=None, copy=True, **kw):
    r = _f_array(obj, dtype=dtype, copy=copy, **kw)
    if type(r) is _np.ndarray and _rdt(r) != object and r.dtype.kind in "iub":
        r = r.view(CArr)
    return r


def _infer_dt(r):
    for x in r.ravel():
        if isinstance(x, SC):
            return _np.dtype(complex)
    return _np.dtype(float)


def f_asarray(obj, dtype=None, **kw):
    dtype = _dt(dtype)
    if isinstance(obj, _np.ndarray) and (dtype is None or _rdt(obj) == object and not _is_intlike_dtype(dtype)):
        return obj
    return f_array(obj, dtype=dtype, copy=False)


def f_fromiter(it, dtype=float, count=-1, **kw):
    vals = list(it)
    if builtins.any(_has_symbolic(v) for v in vals):
        return sarr(vals, _np.dtype(float))
    return _np.fromiter(vals, dtype=_dt(dtype), count=count)


def f_arange(*args, **kw):
    if builtins.any(_has_symbolic(a) for a in args):
        raise S.SymbolicLeak("arange with symbolic bounds")
    r = _np.arange(*args, **kw)
    if r.dtype.kind in "iu":
        return r.view(CArr)
    return sarr(r, r.dtype)


def f_linspace(start, stop, num=50, endpoint=True, retstep=False, **kw):
    num = builtins.int(num)
    start, stop = lift_strict(start), lift_strict(stop)
    div = (num - 1) if endpoint else num
    out = _np.empty(num, dtype=object)
    step = (stop - start) / div if div > 0 else S.ZERO()
    for i in range(num):
        out[i] = start + step * i
    if endpoint and num > 1:
        out[-1] = stop
    r = out.view(SArr)
    r._dt = _np.dtype(float)
    return (r, step) if retstep else r


def f_diag(v, k=0):
    v = v if isinstance(v, _np.ndarray) else f_array(v)
    if _rdt(v) != object:
        return sarr(_np.diag(v, k))
    if v.ndim == 1:
        n = v.shape[0]
        out = f_zeros((n, n))
        for i in range(n):
            out[i, i] = v[i]
        return out
    return _np.diag(v, k).view(SArr)


def f_eye(n, *a, **kw):
    return sarr(_np.eye(n, *a, **kw))


# --------------------------------------------------------------------------- selection / maths

def f_where(cond, x=None, y=None):
    if x is None and y is None:
        cond = _concretize_key(cond) if isinstance(cond, _np.ndarray) else cond
        return _np.where(cond)
    c = cond if isinstance(cond, _np.ndarray) else _np.asarray(cond, dtype=object if isinstance(cond, SB) else None)
    xa = x if isinstance(x, _np.ndarray) else _np.asarray(lift_strict(x) if not isinstance(x, (list, tuple)) else sarr(x), dtype=object)
    ya = y if isinstance(y, _np.ndarray) else _np.asarray(lift_strict(y) if not isinstance(y, (list, tuple)) else sarr(y), dtype=object)
    if _rdt(c) != object and _rdt(xa) != object and _rdt(ya) != object:
        return _np.where(c, xa, ya)
    b = _np.broadcast(c, xa, ya)
    out = _np.empty(b.shape, dtype=object)
    for idx, (cc, xx, yy) in zip(_np.ndindex(b.shape), b):
        out[idx] = S.where(cc if isinstance(cc, SB) else builtins.bool(cc), xx, yy)
    r = out.view(SArr)
    r._dt = getattr(x, "_dt", None) or getattr(y, "_dt", None) or _np.dtype(float)
    return r


def f_histogram(a, bins=10, range=None, density=None, weights=None):
    """documented numpy semantics for an integer number of equal-width bins over `range`:
    bin k = [e_k, e_{k+1}) , last bin closed on the right; values outside the range are ignored."""
    a = a if isinstance(a, _np.ndarray) else f_array(a)
    if _rdt(a) != object and (weights is None or not _has_symbolic(weights)) and not _has_symbolic(range):
        return _np.histogram(a, bins=bins, range=range, density=density, weights=weights)
    if density:
        raise S.SymbolicLeak("histogram(density=True) not modelled")
    if not isinstance(bins, (int, _np.integer)):
        raise S.SymbolicLeak("histogram with explicit edges not modelled")
    if range is None:
        raise S.SymbolicLeak("histogram without range not modelled")
    nb = builtins.int(bins)
    lo, hi = lift_strict(range[0]), lift_strict(range[1])
    edges = f_linspace(lo, hi, nb + 1)
    vals = a.ravel()
    w = None
    if weights is not None:
        w = (weights if isinstance(weights, _np.ndarray) else f_array(weights)).ravel()
    counts = _np.empty(nb, dtype=object)
    for k in builtins.range(nb):
        tot = S.ZERO()
        for j, v in enumerate(vals):
            v = lift_strict(v)
            inside = (v >= edges[k]) & ((v < edges[k + 1]) if k < nb - 1 else (v <= edges[k + 1]))
            term = S.indicator(inside) if not isinstance(inside, builtins.bool) else SR.const(1 if inside else 0)
            if w is not None:
                term = term * lift_strict(w[j])
            tot = tot + term
        counts[k] = tot
    c = counts.view(SArr)
    c._dt = _np.dtype(float if weights is not None else int)
    return c, edges


def f_sum(a, *args, **kw):
    return _np.sum(a, *args, **kw)


def f_prod(a, *args, **kw):
    return _np.prod(a, *args, **kw)


def _elementwise(name):
    uf = getattr(_np, name)

    def f(x, *a, **k):
        if isinstance(x, (SR, SC, SAngle, S.SImAngle)):
            return getattr(x, name)(*[lift_strict(y) for y in a])
        if name == "sqrt" and isinstance(x, (builtins.int, builtins.float, _np.integer, _np.floating)) \
                and not isinstance(x, builtins.bool) and x >= 0:
            return S.sqrt(lift_strict(x))     # exact algebraic constant instead of its double
        if name in ("log", "log10") and isinstance(x, (builtins.int, _np.integer)) and not isinstance(x, builtins.bool) and x > 1:
            return getattr(lift_strict(x), name)()      # log of an integer constant stays a symbol (exact), not its double
        return uf(x, *a, **k)
    f.__name__ = name
    return f


def f_abs(x, *a, **k):
    if isinstance(x, (SR, SC)):
        return abs(x)
    return _np.abs(x, *a, **k)


def f_real(x):
    if isinstance(x, (SR, SC)):
        return x.real
    if isinstance(x, _np.ndarray) and _rdt(x) == object:
        return _map(x, lambda v: v.real if isinstance(v, (SR, SC)) else lift_strict(v).real)
    return _np.real(x)


def f_imag(x):
    if isinstance(x, (SR, SC)):
        return x.imag
    if isinstance(x, _np.ndarray) and _rdt(x) == object:
        return _map(x, lambda v: lift_strict(v).imag)
    return _np.imag(x)


def f_conj(x, *a, **k):
    if isinstance(x, (SR, SC)):
        return x.conjugate()
    if isinstance(x, _np.ndarray) and _rdt(x) == object:
        return _map(x, lambda v: lift_strict(v).conjugate())
    return _np.conj(x, *a, **k)


def f_angle(x):
    """np.angle: a real-valued symbol theta whose (cos, sin) are known algebraically (so that theta can be averaged,
    scaled ... as a real number and exp(i*theta) still resolves)"""
    if isinstance(x, SC):
        return S.angle_value(S.arctan2(x.im, x.re))
    if isinstance(x, SR):
        return S.angle_value(S.arctan2(S.ZERO(), x))
    if isinstance(x, _np.ndarray) and _rdt(x) == object:
        out = _np.empty(x.shape, dtype=object)
        for idx in _np.ndindex(x.shape):
            out[idx] = f_angle(lift_strict(x[idx]))
        return out.view(SArr)
    return _np.angle(x)


def f_square(x, *a, **k):
    if isinstance(x, (SR, SC)):
        return x * x
    return _np.square(x, *a, **k)


def f_power(x, e, *a, **k):
    if isinstance(x, (SR, SC)):
        return x ** e
    return _np.power(x, e, *a, **k)


def f_round(x, decimals=0, *a, **k):
    if isinstance(x, SR):
        return x.rint() if decimals == 0 else x
    if isinstance(x, _np.ndarray) and _rdt(x) == object:
        return x.view(SArr).round(decimals)
    return _np.round(x, decimals, *a, **k)


def f_copy(a, *args, **kw):
    if isinstance(a, _np.ndarray):
        return a.copy()
    return f_array(a)


def f_einsum(subscripts, *operands, **kw):
    """np.einsum on proxy data: real numpy does the contraction on object arrays; the result is re-wrapped so that
    .real / .imag / in-place arithmetic behave as on a numeric array"""
    ops = [o.view(_np.ndarray) if isinstance(o, SArr) else o for o in operands]
    if not builtins.any(isinstance(o, _np.ndarray) and _rdt(o) == object for o in ops):
        return _np.einsum(subscripts, *operands, **kw)
    kw.pop("optimize", None)
    res = _np.einsum(subscripts, *[(_np.asarray(o, dtype=object) if isinstance(o, _np.ndarray) else o) for o in ops])
    if isinstance(res, _np.ndarray):
        r = res.view(SArr)
        r._dt = _np.dtype(complex) if builtins.any(isinstance(v, SC) for v in res.ravel()) else _np.dtype(float)
        return r
    return res


def f_trace(a, *args, **kw):
    return _np.trace(a, *args, **kw)


def f_isclose(a, b, rtol=1e-05, atol=1e-08, **kw):
    """documented semantics: |a - b| <= atol + rtol * |b| (element-wise, symbolic comparisons stay symbolic)"""
    if not (_has_symbolic(a) or _has_symbolic(b)):
        return _np.isclose(a, b, rtol=rtol, atol=atol, **kw)
    aa = a if isinstance(a, _np.ndarray) else sarr(a) if isinstance(a, (list, tuple)) else a
    bb = b if isinstance(b, _np.ndarray) else sarr(b) if isinstance(b, (list, tuple)) else b
    diff = _np.abs(aa - bb) if isinstance(aa - bb, _np.ndarray) else abs(aa - bb)
    bound = S.snap_float(atol) + S.snap_float(rtol) * (_np.abs(bb) if isinstance(bb, _np.ndarray) else abs(lift_strict(bb)))
    if isinstance(diff, _np.ndarray):
        return _np.less_equal(diff.view(SArr) if _rdt(diff) == object else diff, bound)
    return lift_strict(diff) <= bound


def f_allclose(a, b, rtol=1e-05, atol=1e-08, **kw):
    r = f_isclose(a, b, rtol=rtol, atol=atol)
    if isinstance(r, _np.ndarray):
        return builtins.bool(builtins.all(builtins.bool(x) for x in r.ravel()))
    return builtins.bool(r)


# --------------------------------------------------------------------------- linalg

def _det(m):
    n = m.shape[0]
    if n == 1:
        return m[0, 0]
    if n == 2:
        return m[0, 0] * m[1, 1] - m[0, 1] * m[1, 0]
    tot = S.ZERO()
    for j in builtins.range(n):
        sub = _np.delete(_np.delete(m, 0, axis=0), j, axis=1)
        tot = tot + m[0, j] * _det(sub) * (-1 if j % 2 else 1)
    return tot


def linalg_inv(m):
    m = m if isinstance(m, _np.ndarray) else f_array(m)
    if _rdt(m) != object:
        return _np.linalg.inv(m)
    n = m.shape[0]
    det = _det(m)
    out = _np.empty((n, n), dtype=object)
    if n == 1:
        out[0, 0] = 1 / det
    else:
        for i in builtins.range(n):
            for j in builtins.range(n):
                sub = _np.delete(_np.delete(m, j, axis=0), i, axis=1)
                out[i, j] = _det(sub) * (-1 if (i + j) % 2 else 1) / det
    r = out.view(SArr)
    r._dt = _np.dtype(float)
    return r


def linalg_solve(a, b):
    """x with a @ x = b (documented semantics) through the closed-form inverse, n <= 3"""
    a = a if isinstance(a, _np.ndarray) else f_array(a)
    b = b if isinstance(b, _np.ndarray) else f_array(b)
    if _rdt(a) != object and _rdt(b) != object:
        return _np.linalg.solve(a, b)
    inv = linalg_inv(a if _rdt(a) == object else sarr(a))
    bb = b if _rdt(b) == object else sarr(b)
    r = _np.dot(inv.view(_np.ndarray), bb.view(_np.ndarray))
    r = r.view(SArr)
    r._dt = _np.dtype(float)
    return r


def linalg_det(m):
    m = m if isinstance(m, _np.ndarray) else f_array(m)
    if _rdt(m) != object:
        return _np.linalg.det(m)
    return _det(m)


def linalg_norm(x, ord=None, axis=None, keepdims=False):
    x = x if isinstance(x, _np.ndarray) else f_array(x)
    if _rdt(x) != object:
        return _np.linalg.norm(x, ord=ord, axis=axis, keepdims=keepdims)
    if ord not in (None, 2, "fro"):
        raise S.SymbolicLeak(f"norm ord={ord} not modelled")
    sq = _map(x, lambda v: (v.re * v.re + v.im * v.im) if isinstance(v, SC) else lift_strict(v) * lift_strict(v))
    s = _np.add.reduce(sq.view(_np.ndarray), axis=axis, keepdims=keepdims) if axis is not None else \
        _np.add.reduce(sq.view(_np.ndarray).ravel())
    if isinstance(s, _np.ndarray):
        return _map(s, lambda v: S.sqrt(v))
    return S.sqrt(s)


def linalg_eig(m):
    """eigenvalues of a symmetric 2x2 (closed form) or 3x3 (fresh symbols constrained by Vieta's relations and
    realness) symbolic matrix; eigenvectors are not modelled (None)"""
    m = m if isinstance(m, _np.ndarray) else f_array(m)
    if _rdt(m) != object:
        return _np.linalg.eig(m)
    n_ = m.shape[0]
    EIG_LOG.append(m)
    if n_ == 2:
        tr = m[0, 0] + m[1, 1]
        det = m[0, 0] * m[1, 1] - m[0, 1] * m[1, 0]
        disc = S.sqrt(tr * tr - 4 * det)
        vals = [(tr + disc) / 2, (tr - disc) / 2]
    elif n_ == 3:
        import z3
        tr = m[0, 0] + m[1, 1] + m[2, 2]
        c2 = (m[0, 0] * m[1, 1] - m[0, 1] * m[1, 0]) + (m[0, 0] * m[2, 2] - m[0, 2] * m[2, 0]) + (m[1, 1] * m[2, 2] - m[1, 2] * m[2, 1])
        det = _det(m)
        mm = m

        def fe_k(k):
            def fe(env, k=k):
                a = _np.array([[lift_strict(mm[i, j]).feval(env) for j in builtins.range(3)] for i in builtins.range(3)], dtype=float)
                return builtins.float(_np.sort(_np.linalg.eigvalsh((a + a.T) / 2))[k])
            return fe
        deps = set()
        for v in m.ravel():
            deps |= lift_strict(v).atomset()
        # eig is a function of the matrix: structurally equal matrices get the same (sorted) eigenvalue symbols
        ckey = ("eig3",) + tuple(lift_strict(v).key() for v in m.ravel())
        hit = S.REG.fn_cache.get(ckey)
        if hit is not None:
            out = _np.empty(3, dtype=object)
            for i, v in enumerate(hit):
                out[i] = v
            r = out.view(SArr)
            r._dt = _np.dtype(float)
            return r, None
        atoms = [S.REG.new_atom(f"eig!{len(S.REG.atoms)}", "eig", data=(mm, k), fe=fe_k(k), deps=deps) for k in builtins.range(3)]
        S.REG.uninterpreted += 1
        l0, l1, l2 = [SR.atom(a.idx) for a in atoms]
        S.REG.fn_cache[ckey] = (l0, l1, l2)
        for rel in ((l0 + l1 + l2) == tr, (l0 * l1 + l0 * l2 + l1 * l2) == c2, (l0 * l1 * l2) == det, l0 <= l1, l1 <= l2):
            if isinstance(rel, SB):
                for a in atoms:
                    S.REG.add_axiom(rel.z, a.idx)
        vals = [l0, l1, l2]
    else:
        raise S.SymbolicLeak("eig of a symbolic matrix larger than 3x3")
    out = _np.empty(n_, dtype=object)
    for i, v in enumerate(vals):
        out[i] = v
    r = out.view(SArr)
    r._dt = _np.dtype(float)
    return r, None


EIG_LOG = []


def f_sort(a, axis=-1, **kw):
    if isinstance(a, _np.ndarray) and _rdt(a) == object and a.ndim == 1:
        # sorting network of If-terms (min/max), no forking on the order of symbolic values
        vals = [lift_strict(v) for v in a]
        n_ = len(vals)
        for i in builtins.range(n_):
            for j in builtins.range(n_ - 1 - i):
                x, y = vals[j], vals[j + 1]
                c = x <= y
                if not isinstance(c, builtins.bool) and S.ENGINE is not None:
                    known = S.ENGINE.implied(c)          # e.g. eigenvalue symbols that are ordered by definition
                    if known is not None:
                        c = known
                if isinstance(c, builtins.bool):
                    lo, hi = (x, y) if c else (y, x)
                else:
                    lo, hi = S.where(c, x, y), S.where(c, y, x)      # one indicator for both: lo + hi == x + y structurally
                vals[j], vals[j + 1] = lo, hi
        out = _np.empty(n_, dtype=object)
        for i, v in enumerate(vals):
            out[i] = v
        r = out.view(SArr)
        r._dt = getattr(a, "_dt", None)
        return r
    return _np.sort(a, axis=axis, **kw)


class _Linalg:
    eig = staticmethod(linalg_eig)
    inv = staticmethod(linalg_inv)
    solve = staticmethod(linalg_solve)
    det = staticmethod(linalg_det)
    norm = staticmethod(linalg_norm)

    def __getattr__(self, name):
        hook = HOOKS.get("linalg." + name)
        if hook is not None:
            return hook
        return getattr(_np.linalg, name)


HOOKS = {}      # harness-supplied stubs, e.g. HOOKS["linalg.eigh"] = ...
RECORD = {"save": [], "savetxt": []}


def f_save(file, arr, *a, **k):
    RECORD["save"].append((file, arr))


def f_savetxt(fname, X, *a, **k):
    RECORD["savetxt"].append((fname, X, k))


class _Facade:
    """module-like object bound as `np` in the repo modules during a symbolic run"""
    linalg = _Linalg()
    zeros = staticmethod(f_zeros)
    ones = staticmethod(f_ones)
    empty = staticmethod(f_empty)
    full = staticmethod(f_full)
    zeros_like = staticmethod(f_zeros_like)
    ones_like = staticmethod(f_ones_like)
    array = staticmethod(f_array)
    asarray = staticmethod(f_asarray)
    arange = staticmethod(f_arange)
    fromiter = staticmethod(f_fromiter)
    linspace = staticmethod(f_linspace)
    diag = staticmethod(f_diag)
    eye = staticmethod(f_eye)
    identity = staticmethod(f_eye)
    where = staticmethod(f_where)
    histogram = staticmethod(f_histogram)
    sort = staticmethod(f_sort)
    min = staticmethod(f_min)
    amin = staticmethod(f_min)
    max = staticmethod(f_max)
    amax = staticmethod(f_max)
    abs = staticmethod(f_abs)
    absolute = staticmethod(f_abs)
    real = staticmethod(f_real)
    imag = staticmethod(f_imag)
    conj = staticmethod(f_conj)
    conjugate = staticmethod(f_conj)
    angle = staticmethod(f_angle)
    square = staticmethod(f_square)
    power = staticmethod(f_power)
    round = staticmethod(f_round)
    around = staticmethod(f_round)
    copy = staticmethod(f_copy)
    einsum = staticmethod(f_einsum)
    isclose = staticmethod(f_isclose)
    allclose = staticmethod(f_allclose)
    save = staticmethod(f_save)
    savetxt = staticmethod(f_savetxt)
    sqrt = staticmethod(_elementwise("sqrt"))
    exp = staticmethod(_elementwise("exp"))
    log = staticmethod(_elementwise("log"))
    log10 = staticmethod(_elementwise("log10"))
    cos = staticmethod(_elementwise("cos"))
    sin = staticmethod(_elementwise("sin"))
    arccos = staticmethod(_elementwise("arccos"))
    arctan2 = staticmethod(_elementwise("arctan2"))
    rint = staticmethod(_elementwise("rint"))
    floor = staticmethod(_elementwise("floor"))
    ceil = staticmethod(_elementwise("ceil"))

    @property
    def pi(self):
        return S.pi()

    def __getattr__(self, name):
        hook = HOOKS.get(name)
        if hook is not None:
            return hook
        return getattr(_np, name)


FACADE = _Facade()
