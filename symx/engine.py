"""Path exploration, obligations, replay, trace validation (DESIGN 1.4 - 1.6)."""
from __future__ import annotations

import json
import math
import os
import re
import shutil
import sys
import tempfile
import time
import traceback
from fractions import Fraction

import numpy as np
import z3

from . import scalar as S
from . import poly as P
from .scalar import SR, SC, SB, SAngle

TOKEN_RE = re.compile(r"^@(\d+)@$")


class PathAbort(BaseException):
    """stop the current path (budget / infeasible); BaseException so repo code cannot swallow it"""


class HarnessError(Exception):
    pass


# --------------------------------------------------------------------------- numeric helpers

def blame(exc) -> str:
    """'repo' if the exception was raised beneath a frame of /repo (and not by harness/engine code), else 'harness'"""
    tb = exc.__traceback__
    files = []
    while tb is not None:
        files.append(tb.tb_frame.f_code.co_filename)
        tb = tb.tb_next
    if not files:
        return "harness"
    if not any("/PyMatterSim/" in f for f in files):
        return "harness"
    if isinstance(exc, (S.SymbolicLeak, HarnessError)):
        return "harness"
    # frames after the last repo frame: facade code delegating to numpy/builtins is fine (the concrete replay is
    # the arbiter); a check module or the engine raising is a harness problem
    last_repo = max(i for i, f in enumerate(files) if "/PyMatterSim/" in f)
    verif_root = os.path.dirname(os.path.dirname(os.path.abspath(__file__)))
    for f in files[last_repo + 1:]:
        if f.startswith(os.path.join(verif_root, "checks")) or f.endswith("symx/engine.py"):
            return "harness"
    return "repo"


def frac_of(v) -> Fraction:
    """z3 numeral -> Fraction"""
    if z3.is_rational_value(v):
        return Fraction(v.numerator_as_long(), v.denominator_as_long())
    if z3.is_int_value(v):
        return Fraction(v.as_long())
    if z3.is_algebraic_value(v):
        a = v.approx(30)
        return Fraction(a.numerator_as_long(), a.denominator_as_long())
    if z3.is_true(v):
        return Fraction(1)
    if z3.is_false(v):
        return Fraction(0)
    raise HarnessError(f"cannot read model value {v}")


RTOL = 1e-7
ATOL = 1e-9


def close(a, b, rtol=RTOL, atol=ATOL):
    try:
        a = complex(a)
        b = complex(b)
    except Exception:
        return False
    if a != a or b != b:
        return False
    return abs(a - b) <= atol + rtol * max(abs(a), abs(b))


# --------------------------------------------------------------------------- engine

class Engine:
    def __init__(self, prop, hname, fn, config, opts=None):
        self.prop, self.hname, self.fn, self.config = prop, hname, fn, dict(config)
        o = dict(timeout_ms=10000, max_paths=2000, max_decisions=5000, validate=True,
                 abstract=False, seed=0, replay_dir=None, budget_s=None, rint_lemmas=("L1", "L2", "L4"))
        o.update(opts or {})
        self.o = o
        self.stats = dict(paths=0, decisions=0, forks=0, solver_calls=0, solver_s=0.0, obligations=0,
                          discharged=0, structural=0, undecided=0, violated=0, unconfirmed=0,
                          validated=0, validation_skipped=0, maybe_infeasible=0, incomplete=False,
                          aborted_paths=0)
        self.samples = []
        self.violations = []      # dicts
        self.errors = []
        self.undecided_names = []
        self.functions = set()
        self.assumptions = set()
        self.lemmas = set()
        self.t0 = time.time()

    # ---------------------------------------------------------------- path state
    def _start(self, prefix):
        S.reset_registry()
        S.ENGINE = self
        S.REG.axiom_sink = self._on_axiom
        self.prefix = list(prefix)
        self.trace = []
        self.asserts = []         # (z3bool, rep_atom or None, strict z3bool or None)
        self.lin_memo = {}
        self.lin_squares = {}
        self.lin_keep = []        # keeps abstracted sub-terms alive so that ast ids stay unique
        self.decided = {}         # z3 ast id of a simplified condition -> (decision, ast) on this path
        self.defs = {}            # atom idx -> indices of its definitional axioms in self.asserts
        self.occ_cache = {}
        self.obligs = []
        self.outputs = {}
        self.tokens = []
        self.token_of = {}
        self.round_atoms = []
        self.has_int = False
        self.path_unknown = False
        self.tmpdirs = []
        self.protected = []       # frame conditions (C18): (name, array, saved elements, shape)
        from . import npf as _npf
        _npf.PROTECTED.clear()
        _npf.WRITES.clear()

    def _on_axiom(self, ax, at=None):
        if at is None:
            at = len(S.REG.atoms) - 1
        self.asserts.append((ax, at, None))
        self.defs.setdefault(at, []).append(len(self.asserts) - 1)

    # ---------------------------------------------------------------- solver
    def _occ(self, i):
        """atoms occurring in assertion i (from its z3 term: names of uninterpreted constants)"""
        o = self.occ_cache.get(i)
        if o is None:
            o = self.occ_cache[i] = self._atoms_of_term(self.asserts[i][0])
        return o

    def _atoms_of_term(self, t):
        by_name = S.REG.by_name
        out = set()
        seen = set()
        stack = [t]
        while stack:
            x = stack.pop()
            i = x.get_id()
            if i in seen:
                continue
            seen.add(i)
            if z3.is_const(x) and x.decl().kind() == z3.Z3_OP_UNINTERPRETED:
                a = by_name.get(x.decl().name())
                if a is not None:
                    out.add(a.idx)
            else:
                stack.extend(x.children())
        # indicator atoms are If-terms (no constant of their own): their condition's atoms were collected above
        return frozenset(out)

    def _select(self, atoms, extra=()):
        """relevance closure: path-condition facts that share an atom (transitively) with the goal, and the
        definitional axioms of exactly those atoms that occur in what has been selected.  Dropped facts are over
        disjoint atoms or are conservative definitions of unused symbols, so sat/unsat of the selection is that of
        the whole (radicands are assumed non-negative where a root is taken)."""
        needed = set()
        for t in extra:
            needed |= self._atoms_of_term(t)
        if not needed and not extra:
            return list(self.asserts)
        defidx = set()
        for lst in self.defs.values():
            defidx.update(lst)
        chosen = set()
        frontier = set(needed)
        n = len(self.asserts)
        pcs = [i for i in range(n) if i not in defidx]
        changed = True
        while changed:
            changed = False
            for a in list(frontier):
                for i in self.defs.get(a, ()):
                    if i not in chosen:
                        chosen.add(i)
                        new = self._occ(i) - needed
                        if new:
                            needed |= new
                            frontier |= new
                            changed = True
            frontier = set()
            for i in pcs:
                if i in chosen:
                    continue
                o = self._occ(i)
                if o & needed:
                    chosen.add(i)
                    new = o - needed
                    if new:
                        needed |= new
                        frontier |= new
                    changed = True
            if frontier:
                changed = True
            else:
                frontier = set()
                # definitional axioms for atoms that became needed through pc facts
                for a in needed:
                    for i in self.defs.get(a, ()):
                        if i not in chosen:
                            frontier.add(a)
                if frontier:
                    changed = True
        return [self.asserts[i] for i in sorted(chosen)]

    def _solve(self, zs, timeout_ms=None):
        """-> ('sat'|'unsat'|'unknown', model or None).  Portfolio:
        (1) integer atoms relaxed to reals, nlsat (unsat there is unsat; sat is re-checked with integers)
        (2) the query as it is, default solver  (3) QF_NRA solver when there is no integer atom."""
        timeout_ms = timeout_ms or self.o["timeout_ms"]
        t = time.time()
        self.stats["solver_calls"] += 1
        res, model = "unknown", None
        try:
            # (0) linear abstraction: every non-linear monomial becomes an independent real; unsat there is unsat
            if self.o.get("linear_first", True):
                lz = [self._lin(zz) for zz in zs]
                lz.extend(v >= 0 for v in self.lin_squares.values())
                r0, _ = self._run(z3.SolverFor("QF_LRA") if not self.has_int else z3.Solver(), lz, min(timeout_ms // 4, 5000))
                if r0 == "unsat":
                    self.stats["by_linear_abstraction"] = self.stats.get("by_linear_abstraction", 0) + 1
                    self.stats["solver_s"] += time.time() - t
                    return "unsat", None
            if self.has_int:
                sub = [(a.z, z3.Real(a.name + "!relaxed")) for a in S.REG.atoms if a.kind == "ivar"]
                rz = [z3.substitute(zz, *sub) for zz in zs]
                r0, m0 = self._run(z3.SolverFor("QF_NRA"), rz, timeout_ms // 2)
                if r0 == "unsat":
                    res = "unsat"
                else:
                    r1, m1 = self._run(z3.Solver(), zs, timeout_ms // 2)
                    if r1 != "unknown":
                        res, model = r1, m1
                    elif r0 == "sat":
                        res, model = "sat", _RelaxedModel(m0)
            else:
                r1, m1 = self._run(z3.Solver(), zs, timeout_ms // 2)
                if r1 == "unknown":
                    r1, m1 = self._run(z3.SolverFor("QF_NRA"), zs, timeout_ms // 2)
                res, model = r1, m1
        except z3.Z3Exception as e:      # pragma: no cover
            res = "unknown"
            if os.environ.get("SYMX_DEBUG"):
                print("Z3Exception", e); traceback.print_exc()
        self.stats["solver_s"] += time.time() - t
        return res, model

    def _lin(self, t):
        memo = self.lin_memo
        stack = [t]
        while stack:
            x = stack[-1]
            i = x.get_id()
            if i in memo:
                stack.pop()
                continue
            ch = x.children()
            todo = [c for c in ch if c.get_id() not in memo]
            if todo:
                stack.extend(todo)
                continue
            stack.pop()
            if not ch:
                memo[i] = (x, x)
                continue
            nch = [memo[c.get_id()][1] for c in ch]
            k = x.decl().kind()
            if k == z3.Z3_OP_MUL:
                nums = [c for c in nch if z3.is_rational_value(c) or z3.is_int_value(c)]
                oth = [c for c in nch if not (z3.is_rational_value(c) or z3.is_int_value(c))]
                if len(oth) >= 2:
                    ids = sorted(c.get_id() for c in oth)
                    name = "mono!" + "_".join(str(v) for v in ids)
                    v = z3.Real(name) if x.sort().kind() == z3.Z3_REAL_SORT else z3.Int(name)
                    self.lin_keep.append(oth)
                    if all(ids.count(j) % 2 == 0 for j in set(ids)):
                        self.lin_squares[name] = v          # a perfect square monomial: >= 0 in the abstraction
                    r = z3.Product(*(nums + [v])) if nums else v
                else:
                    r = z3.Product(*nch) if len(nch) > 1 else nch[0]
            elif k == z3.Z3_OP_POWER or (k == z3.Z3_OP_DIV and not (z3.is_rational_value(nch[1]) or z3.is_int_value(nch[1]))):
                name = "nl!" + "_".join(str(c.get_id()) for c in nch) + ("p" if k == z3.Z3_OP_POWER else "d")
                self.lin_keep.append(nch)
                r = z3.Real(name)
            else:
                try:
                    r = x.decl()(*nch)
                except Exception:
                    r = x
            memo[i] = (x, r)
        return memo[t.get_id()][1]

    @staticmethod
    def _run(s, zs, timeout_ms):
        # no helper threads here: z3 ASTs freed by Python's GC from a second thread while the main thread is inside a
        # solver call corrupt the context; run-away solver calls are bounded by the per-task hard limit of the scheduler
        s.set("timeout", max(int(timeout_ms), 100))
        for zz in zs:
            s.add(zz)
        r = s.check()
        if r == z3.sat:
            return "sat", s.model()
        if r == z3.unsat:
            return "unsat", None
        return "unknown", None

    def check(self, extra, atoms=frozenset(), strict=False, full=False, timeout_ms=None):
        sel = self.asserts if full else self._select(atoms, extra)
        zs = [(a[2] if (strict and a[2] is not None) else a[0]) for a in sel]
        zs.extend(extra)
        r = self._solve(zs, timeout_ms)
        if extra and r[0] in ("sat", "unsat") and self.stats.get("second_solver_asked", 0) < self.o.get("second_solver", 0):
            self._second_solver(zs, r[0])
        return r

    def _second_solver(self, zs, verdict):
        """cross-check (DESIGN 1.6): the same query as SMT-LIB2 to the independent z3 4.8.12 binary; a definite answer that
        contradicts the primary verdict is a harness error (exit 3), `unknown`/timeout/parse problems are only counted"""
        import subprocess
        self.stats["second_solver_asked"] = self.stats.get("second_solver_asked", 0) + 1
        try:
            s = z3.Solver()
            for zz in zs:
                s.add(zz)
            txt = s.to_smt2()
            p = subprocess.run(["/usr/bin/z3", "-in", "-T:10"], input=txt, capture_output=True, text=True, timeout=20)
            out = p.stdout.strip().splitlines()
            ans = out[0].strip() if out else "unknown"
            if "(error" in p.stdout or ans not in ("sat", "unsat"):
                self.stats["second_solver_inconclusive"] = self.stats.get("second_solver_inconclusive", 0) + 1
            elif ans == verdict:
                self.stats["second_solver_agree"] = self.stats.get("second_solver_agree", 0) + 1
            else:
                self.errors.append(dict(kind="second-solver-disagrees", config=self.config,
                                        msg=f"z3 {z3.get_version_string()} says {verdict}, /usr/bin/z3 says {ans}"))
        except Exception:
            self.stats["second_solver_inconclusive"] = self.stats.get("second_solver_inconclusive", 0) + 1

    # ---------------------------------------------------------------- decisions
    def _add_pc(self, sb: SB, take: bool):
        z = sb.z if take else z3.Not(sb.z)
        st = sb.st if take else sb.sf
        rep = None
        if sb.atoms:
            rep = S.REG.union(sb.atoms)
        self.asserts.append((z, rep, st))

    def decide(self, sb: SB) -> bool:
        simp = z3.simplify(sb.z)
        if z3.is_true(simp):
            return True
        if z3.is_false(simp):
            return False
        zid = simp.get_id()
        hit = self.decided.get(zid)
        if hit is not None:
            return hit[0]
        self.stats["decisions"] += 1
        pos = len(self.trace)
        if pos < len(self.prefix):
            take = self.prefix[pos]
            if not isinstance(take, bool):
                raise HarnessError("replay divergence: expected boolean decision")
        else:
            if len(self.trace) >= self.o["max_decisions"]:
                self.stats["incomplete"] = True
                raise PathAbort("max_decisions")
            self._budget()
            rt, _ = self.check([sb.z], sb.atoms)
            rf, _ = self.check([z3.Not(sb.z)], sb.atoms)
            ft, ff = rt != "unsat", rf != "unsat"
            if rt == "unknown" or rf == "unknown":
                self.path_unknown = True
            if ft and ff:
                take = True
                self.work.append(self.trace + [False])
                self.stats["forks"] += 1
            elif ft:
                take = True
            elif ff:
                take = False
            else:
                raise PathAbort("infeasible path condition")
        self.trace.append(take)
        self._add_pc(sb, take)
        self.decided[zid] = (take, simp)
        nz = z3.simplify(z3.Not(simp))
        self.decided[nz.get_id()] = (not take, nz)
        return take

    def implied(self, sb):
        """True / False if the path condition decides sb, else None (no fork, nothing recorded)"""
        if not isinstance(sb, SB):
            return bool(sb)
        hit = self.decided.get(z3.simplify(sb.z).get_id())
        if hit is not None:
            return hit[0]
        r, _ = self.check([z3.Not(sb.z)], sb.atoms, timeout_ms=2000)
        if r == "unsat":
            return True
        r, _ = self.check([sb.z], sb.atoms, timeout_ms=2000)
        if r == "unsat":
            return False
        return None

    def assume(self, sb):
        if hasattr(sb, "ok") and hasattr(sb, "why"):
            sb = bool(sb)
        if isinstance(sb, (bool, np.bool_)):
            if not sb:
                raise PathAbort("assumption is constant false")
            return
        self._add_pc(sb, True)

    def concretize_int(self, x: SR) -> int:
        """int(x) for symbolic x: fork on the value of trunc(x)"""
        while True:
            pos = len(self.trace)
            if pos < len(self.prefix):
                rec = self.prefix[pos]
                if not (isinstance(rec, (list, tuple)) and rec[0] == "v"):
                    raise HarnessError("replay divergence: expected value record")
                v = int(rec[1])
            else:
                r, m = self.check([], x.atomset())
                if r != "sat":
                    raise PathAbort("cannot concretise int()")
                env = self.env_from_model(m)
                v = int(math.trunc(x.feval(env)))
            self.trace.append(("v", v))
            if v >= 0:
                cond = (x >= v) & (x < v + 1)
            else:
                cond = (x > v - 1) & (x <= v)
            if isinstance(cond, bool):
                if cond:
                    return v
                continue
            if self.decide(cond):
                return v

    def _budget(self):
        b = self.o.get("budget_s")
        if b and time.time() - self.t0 > b:
            self.stats["incomplete"] = True
            raise PathAbort("time budget")

    # ---------------------------------------------------------------- hooks from scalar
    def note_division(self, sr):
        pass

    def placeholder(self, sr: SR) -> str:
        k = id(sr)
        t = self.token_of.get(k)
        if t is None:
            t = f"@{len(self.tokens)}@"
            self.tokens.append(sr)
            self.token_of[k] = t
        return t

    def parse_token(self, s: str):
        m = TOKEN_RE.match(s.strip())
        if m:
            return self.tokens[int(m.group(1))]
        return None

    def on_round_atom(self, fn, atom, x: SR):
        r = SR.atom(atom.idx)
        half = Fraction(1, 2)
        if fn == "rint":
            cs = [(x - r) <= half, (r - x) <= half]
            self.lemmas.add("rint L1: |x - rint(x)| <= 1/2 (instance per rint atom)")
            # L3: |x| <= 1/2 -> rint(x) = 0
            a, b = x <= half, (-x) <= half
            if "L3" in self.o["rint_lemmas"] and isinstance(a, SB) and isinstance(b, SB):
                self._on_axiom(z3.Implies(z3.And(a.z, b.z), atom.z == 0), atom.idx)
                self.lemmas.add("rint L3: |x| <= 1/2 -> rint(x) = 0 (instance per rint atom)")
            # L4: rint(-x) = -rint(x) for structurally negated arguments
            nk = (-x).key()
            for (fn2, r2, x2) in self.round_atoms:
                if fn2 == "rint" and x2.key() == nk:
                    self._on_axiom(atom.z == -S.REG.atoms[_atom_of(r2)].z, atom.idx)
                    self.lemmas.add("rint L4: rint(-x) = -rint(x) (structural instances)")
            # L2: integer shifts declared by the harness; congruence for provably equal arguments
            for (fn2, r2, x2) in self.round_atoms:
                if fn2 == "rint":
                    self._shift_instance(atom, r, x, r2, x2)
                    same = (x == x2) if "cong" in self.o["rint_lemmas"] else None
                    if isinstance(same, SB) and (x.atomset() & x2.atomset()):
                        S.REG.union([atom.idx, *x.atomset(), *x2.atomset(), *r2.atomset()])
                        self._on_axiom(z3.Implies(same.z, atom.z == S.REG.atoms[_atom_of(r2)].z), atom.idx)
        else:
            cs = [r <= x, x < r + 1]
            self.lemmas.add("floor: floor(x) <= x < floor(x)+1 (instance per floor atom)")
        for c in cs:
            if isinstance(c, SB):
                self._on_axiom(c.z, atom.idx)
        self.round_atoms.append((fn, r, x))
        if fn == "rint" and self.o.get("rint_pin"):
            # opt-in: when the path condition confines x to one open interval (n - 1/2, n + 1/2), rint(x) IS the integer n
            # (integrality, which the real-valued function symbol with lemma L1 alone does not know)
            res, m = self.check([], x.atomset(), timeout_ms=2000)
            if res == "sat":
                try:
                    val = x.feval(self.env_from_model(m))
                    n = int(round(val))
                    inside = (x > n - half) & (x < n + half)
                    if isinstance(inside, SB):
                        r2, _ = self.check([z3.Not(inside.z)], inside.atoms, timeout_ms=2000)
                        if r2 == "unsat":
                            self._on_axiom(atom.z == n, atom.idx)
                            self.lemmas.add("rint pinned: path condition confines x to (n-1/2, n+1/2) => rint(x) = n (solver-checked per atom)")
                    elif inside is True:
                        self._on_axiom(atom.z == n, atom.idx)
                except Exception:
                    pass

    def _shift_instance(self, atom, r, x, r2, x2):
        """if x - x2 (or x + x2) is an integer-valued expression (integer combination of declared integer atoms) add
        no-tie(x2) -> rint(x) = rint(x2) + (x - x2)     [lemma L2]
        no-tie(x2) -> rint(x) = (x + x2) - rint(x2)     [L2 with L4: rint symbols are kept for one sign of the argument]"""
        half = Fraction(1, 2)
        for sign in (1, -1):
            d = x - x2 if sign == 1 else x + x2
            if d.d:
                continue
            ok = True
            for m, c in d.n.items():
                if c.denominator != 1:
                    ok = False
                    break
                for at, e in m:
                    if S.REG.atoms[at].kind != "ivar":
                        ok = False
                        break
                if not ok:
                    break
            if not ok:
                continue
            t1, t2 = (x2 - r2) == half, (r2 - x2) == half
            if isinstance(t1, bool) or isinstance(t2, bool):
                return
            S.REG.union([atom.idx, *x2.atomset(), *r2.atomset(), *d.atomset()])
            rhs = (r2 + d) if sign == 1 else (d - r2)
            self._on_axiom(z3.Implies(z3.Not(z3.Or(t1.z, t2.z)), atom.z == rhs.to_z3()), atom.idx)
            self.lemmas.add("rint L2: no tie & k integer -> rint(x+k) = rint(x)+k (instances for integer-valued differences)")
            return

    def find_round(self, fn, x: SR):
        """the code's rint/floor atom whose argument provably equals x (structural, then solver)"""
        if fn == "rint" and x.n:
            lead = max(x.n, key=lambda m: (sum(e for _, e in m), m))
            if x.n[lead] < 0:           # rint symbols are kept for one sign of the argument only (rint is odd)
                r = self.find_round(fn, -x)
                return None if r is None else -r
        k = x.key()
        for (fn2, r2, x2) in self.round_atoms:
            if fn2 == fn and x2.key() == k:
                return r2
        for (fn2, r2, x2) in self.round_atoms:
            if fn2 != fn:
                continue
            c = x2 == x
            if c is True:
                return r2
            if isinstance(c, SB):
                res, _ = self.check([z3.Not(c.z)], c.atoms)
                if res == "unsat":
                    return r2
        return None

    # ---------------------------------------------------------------- models
    def env_from_inputs(self, inputs: dict):
        """float environment for all atoms from input values (semantic evaluation of derived atoms)"""
        env = {}
        for a in S.REG.atoms:
            if a.kind in ("var", "ivar") and a.fe is None:
                env[a.idx] = float(inputs.get(a.name, 0.0))
            else:
                try:
                    env[a.idx] = a.fe(env)
                except (ValueError, ZeroDivisionError, OverflowError):
                    env[a.idx] = float("nan")
        return env

    def env_from_model(self, m):
        inputs = self.inputs_from_model(m)
        return self.env_from_inputs(inputs)

    def inputs_from_model(self, m) -> dict:
        out = {}
        for idx in S.REG.inputs:
            a = S.REG.atoms[idx]
            zc = a.data if a.kind == "ivar" else a.z
            v = m.eval(zc, model_completion=True)
            out[a.name] = frac_of(v)
        return out

    # ---------------------------------------------------------------- obligations
    def oblige(self, name, cond, then_assume=False, using=None):
        """discharge `cond` under the current path condition; with then_assume a discharged obligation is kept as a
        lemma for later obligations (never an undecided or violated one).  `using`: premises (facts already assumed
        or discharged on this path) - the query is posed from these alone, plus the definitions of the symbols that
        occur (a subset of the path condition, so unsat is sound)."""
        before = self.stats["discharged"]
        if using is not None and isinstance(cond, SB):
            self.stats["obligations"] += 1
            prem = [u.z for u in using if isinstance(u, SB)]
            if any((isinstance(u, (bool, np.bool_)) and not u) for u in using):
                raise HarnessError(f"{name}: a premise is constant false")
            need = set(cond.atoms)
            for u in using:
                if isinstance(u, SB):
                    need |= set(u.atoms)
            defs = []
            seen = set()
            frontier = set(need)
            while frontier:
                a = frontier.pop()
                if a in seen:
                    continue
                seen.add(a)
                for i in self.defs.get(a, ()):
                    defs.append(self.asserts[i][0])
                    frontier |= (self._occ(i) - seen)
            r, m = self._solve(defs + prem + [z3.Not(cond.z)])
            if r == "unsat":
                self.stats["discharged"] += 1
                self.stats["from_premises"] = self.stats.get("from_premises", 0) + 1
                if len(self.samples) < 6:
                    self.samples.append(dict(obligation=name, verdict="unsat (from stated premises)", config=self.config))
            elif r == "unknown":
                self.stats["undecided"] += 1
                self.undecided_names.append(f"{name} @ {self.config}")
            else:
                # not implied by the premises alone: fall back to the full path condition
                self.stats["obligations"] -= 1
                self._oblige(name, cond)
        else:
            self._oblige(name, cond)
        if then_assume and self.stats["discharged"] > before and isinstance(cond, SB):
            self._add_pc(cond, True)

    def _oblige(self, name, cond):
        self.stats["obligations"] += 1
        if type(cond).__name__ == "Undecided":
            self.stats["undecided"] += 1
            self.undecided_names.append(f"{name} ({cond.why}) @ {self.config}")
            return
        if hasattr(cond, "ok") and hasattr(cond, "why"):
            cond = bool(cond)
        if isinstance(cond, (bool, np.bool_)):
            if cond:
                self.stats["structural"] += 1
                self.stats["discharged"] += 1
                if len(self.samples) < 6:
                    self.samples.append(dict(obligation=name, verdict="unsat (normal form: 0 != 0)",
                                             config=self.config))
                return
            r, m = self.check([], frozenset(), full=True)
            self._handle_sat(name, m if r == "sat" else None, "constant-false")
            return
        if not isinstance(cond, SB):
            raise HarnessError(f"obligation {name}: not a boolean ({type(cond).__name__})")
        if cond.structural:
            # equal by rational normal form; the solver independently confirms the division-free identity
            r, _ = self.check([z3.Not(cond.z)], cond.atoms, timeout_ms=min(3000, self.o["timeout_ms"]))
            self.stats["structural"] += 1
            self.stats["discharged"] += 1
            if r == "unsat":
                self.stats["structural_confirmed"] = self.stats.get("structural_confirmed", 0) + 1
            elif r == "sat":
                self.errors.append(dict(kind="normal-form-contradicted-by-solver", config=self.config, msg=name))
            if len(self.samples) < 6:
                self.samples.append(dict(obligation=name, config=self.config,
                                         verdict="normal form 0 != 0; raw identity query: " + r))
            return
        hit = self.decided.get(z3.simplify(cond.z).get_id())
        if hit is not None and hit[0]:
            # the obligation is literally a conjunct of the path condition: a two-clause query
            r, m = self._solve([hit[1], z3.Not(cond.z)], 2000)
            if r == "unsat":
                self.stats["by_path_condition"] = self.stats.get("by_path_condition", 0) + 1
            else:
                r, m = self.check([z3.Not(cond.z)], cond.atoms)
        else:
            r, m = self.check([z3.Not(cond.z)], cond.atoms)
        if r == "unsat":
            self.stats["discharged"] += 1
            if len(self.samples) < 6:
                txt = str(z3.simplify(cond.z))
                self.samples.append(dict(obligation=name, verdict="unsat", config=self.config,
                                         formula=(txt[:300] + " ...") if len(txt) > 300 else txt))
            return
        if r == "unknown":
            if os.environ.get("SYMX_DEBUG"):
                sel = self._select(cond.atoms, [z3.Not(cond.z)])
                s = z3.Solver()
                for a in sel:
                    s.add(a[0])
                s.add(z3.Not(cond.z))
                with open(os.environ["SYMX_DEBUG"], "w") as fh:
                    fh.write(s.to_smt2())
            self.stats["undecided"] += 1
            self.undecided_names.append(f"{name} @ {self.config}")
            return
        # sat: get a complete model if the selection was partial
        r2, m2 = self.check([z3.Not(cond.z)], cond.atoms, full=True)
        self._handle_sat(name, m2 if r2 == "sat" else m, "sat")

    def _handle_sat(self, name, model, why):
        inputs = self.inputs_from_model(model) if model is not None else {}
        rep = self.replay(inputs)
        failing = rep.get("failed", [])
        exc = rep.get("exception")
        reproduced = (name in failing) or bool(exc) or (why == "exception" and exc)
        if not reproduced and failing:
            reproduced = True        # another obligation fails concretely on this witness
        self._witness_budget = getattr(self, "_witness_budget", self.o.get("witness_searches", 24))
        if not reproduced and not rep.get("harness_exception") and self._witness_budget > 0:
            self._witness_budget -= 1
            # the solver's witness lives in an abstraction (free cos/sin/exp/rint symbols) or sits where the defect is
            # invisible (e.g. all phases zero): look for a concrete witness of the SAME failing obligation among a few
            # seeded random inputs that satisfy the harness assumptions; only a reproduced failure is ever reported.
            import random
            rng = random.Random(hash((self.o.get("seed", 0), self.hname, name)) & 0xFFFFFFFF)
            for _ in range(self.o.get("witness_tries", 12)):
                cand = {}
                for idx in S.REG.inputs:
                    a = S.REG.atoms[idx]
                    if a.kind == "ivar":
                        v = Fraction(rng.randint(-3, 3))
                    elif idx in P.POSITIVE:
                        v = Fraction(rng.randint(20, 300), 100)
                    elif a.name.endswith(".cos") or a.name.endswith(".sin"):
                        continue
                    else:
                        v = Fraction(rng.randint(-250, 250), 100)
                    cand[a.name] = v
                # angles: consistent (cos, sin) pairs
                for idx in S.REG.inputs:
                    a = S.REG.atoms[idx]
                    if a.name.endswith(".cos"):
                        th = rng.uniform(0.1, 3.0) if (S.REG.by_name.get(a.name[:-4] + ".sin") is not None and
                                                         S.REG.by_name[a.name[:-4] + ".sin"].idx in P.NONNEG) else rng.uniform(-3.1, 3.1)
                        cand[a.name] = Fraction(math.cos(th)).limit_denominator(10 ** 12)
                        cand[a.name[:-4] + ".sin"] = Fraction(math.sin(th)).limit_denominator(10 ** 12)
                rep2 = self.replay(cand)
                if rep2.get("aborted") or rep2.get("harness_exception"):
                    continue
                if name in rep2.get("failed", []) or rep2.get("exception"):
                    inputs, rep, failing, exc = cand, rep2, rep2.get("failed", []), rep2.get("exception")
                    reproduced = True
                    break
        if reproduced:
            self.stats["violated"] += 1
            path = self.write_replay(name, inputs, rep)
            self.violations.append(dict(obligation=name, config=self.config, harness=self.hname,
                                        replay=path, failed=failing[:10], exception=exc))
        else:
            self.stats["unconfirmed"] += 1
            self.undecided_names.append(name + " (sat, not reproduced)")

    def float_frame_check(self, name, writes):
        """a protected input array was written to, but its content is unchanged over the reals (e.g. +d, -2d, +d): the
        frame condition is then a float64 question - the path's model and a few seeded inputs satisfying the harness
        assumptions are replayed on the real code with a byte comparison of the array; only a reproduced difference is
        reported (sampling, labelled as such in the evidence)"""
        self.stats["obligations"] += 1
        self.stats["float_frame_replays"] = self.stats.get("float_frame_replays", 0) + 1
        r, m = self.check([], full=True, strict=True, timeout_ms=self.o.get("validate_timeout_ms", 3000))
        if r != "sat":
            r, m = self.check([], full=True, timeout_ms=self.o.get("validate_timeout_ms", 3000))
        before = self.stats["violated"], self.stats["unconfirmed"]
        self._handle_sat(name, m if r == "sat" else None, "write-monitor")
        if self.stats["violated"] == before[0]:
            # not reproduced: the write restores the bytes on every replayed input
            self.stats["unconfirmed"] = before[1]
            if self.undecided_names and self.undecided_names[-1].startswith(name):
                self.undecided_names.pop()
            self.stats["discharged"] += 1
            if len(self.samples) < 6:
                self.samples.append(dict(obligation=name, config=self.config, verdict="unchanged over the reals (normal form); write at "
                                         + "; ".join(sorted({w[1] for w in writes})[:3]) + " restores identical bytes in every float64 replay"))

    def write_replay(self, name, inputs, rep):
        d = self.o.get("replay_dir") or os.path.join(os.environ.get("VERIF_OUT") or os.path.dirname(os.path.dirname(os.path.abspath(__file__))), "replays")
        os.makedirs(d, exist_ok=True)
        import hashlib
        key = hashlib.sha1(json.dumps([self.prop, self.hname, self.config, name], sort_keys=True, default=str).encode()).hexdigest()[:10]
        path = os.path.join(d, f"{self.prop}_{self.hname}_{key}.json")
        doc = dict(property=self.prop, harness=self.hname, config=self.config, obligation=name,
                   inputs={k: str(v) for k, v in inputs.items()},
                   inputs_float={k: float(v) for k, v in inputs.items()},
                   trace=[list(t) if isinstance(t, tuple) else t for t in self.trace],
                   concrete_failed=rep.get("failed", []), concrete_exception=rep.get("exception"),
                   details=rep.get("details", {}),
                   how="./check %s --replay %s" % (self.prop, path))
        with open(path, "w") as f:
            json.dump(doc, f, indent=1, default=str)
        return path

    # ---------------------------------------------------------------- concrete mode
    def replay(self, inputs: dict, want_outputs=False):
        """run the harness on the real code (no facade) with concrete inputs"""
        from . import bind
        ctx = ConcreteCtx(self, inputs)
        saved_engine = S.ENGINE
        bind.unbind_all()
        res = dict(failed=[], exception=None, details={})
        try:
            with np.errstate(all="ignore"):
                self.fn(ctx, **self.config)
                if self.o.get("frame"):
                    ctx.check_unchanged("frame")
        except PathAbort:
            res["exception"] = None
            res["aborted"] = True
        except Exception as e:
            if blame(e) == "repo" and self.o.get("frame"):
                res["aborted"] = True
            elif blame(e) == "repo":
                res["exception"] = f"{type(e).__name__}: {e}"
            else:
                res["harness_exception"] = f"{type(e).__name__}: {e}"
            res["traceback"] = traceback.format_exc(limit=12)
        finally:
            ctx.cleanup()
            S.ENGINE = saved_engine
            if self.mode_bound:
                bind.bind_all()
        res["failed"] = ctx.failed
        res["details"] = ctx.details
        res["checked"] = ctx.checked
        if want_outputs:
            res["outputs"] = ctx.outputs
        return res

    # ---------------------------------------------------------------- one path
    def run_path(self, prefix):
        from . import bind
        self._start(prefix)
        ctx = SymCtx(self)
        self.mode_bound = True
        bind.bind_all()
        raised = None
        aborted = False
        try:
            self.fn(ctx, **self.config)
            if self.o.get("frame"):
                ctx.check_unchanged("frame")
        except PathAbort as e:
            aborted = True
            self.stats["aborted_paths"] += 1
        except P.TermTooLarge as e:
            aborted = True
            self.stats["aborted_paths"] += 1
            self.stats["incomplete"] = True
            self.undecided_names.append(f"path given up: {e} @ {self.config}")
        except S.SymbolicLeak as e:
            self.errors.append(dict(kind="symbolic-leak", config=self.config, msg=str(e),
                                    tb=traceback.format_exc(limit=12)))
            aborted = True
        except HarnessError as e:
            self.errors.append(dict(kind="harness", config=self.config, msg=str(e), tb=traceback.format_exc(limit=12)))
            aborted = True
        except Exception as e:
            raised_tb = traceback.format_exc(limit=12)
            if "HardTimeout" in repr(e):
                # the hard wall-clock alarm fired inside a solver (ctypes) call and surfaced wrapped in an ArgumentError:
                # it is a time limit, not a property of the code or of the harness
                aborted = True
                self.stats["aborted_paths"] += 1
                self.stats["incomplete"] = True
                self._hard_stop = True
                self.undecided_names.append(f"hard time limit hit inside a solver call @ {self.config}")
            elif blame(e) == "repo" and self.o.get("frame"):
                aborted = True          # frame mode: an exception of the code under test is the host property's business
                self.stats["aborted_paths"] += 1
            elif blame(e) == "repo":
                raised = e
            else:
                self.errors.append(dict(kind="harness-exception", config=self.config, msg=repr(e), tb=raised_tb))
                aborted = True
        finally:
            bind.unbind_all()
            self.mode_bound = False
            ctx.cleanup()
        self.stats["paths"] += 1
        if self.path_unknown:
            self.stats["maybe_infeasible"] += 1
        if aborted:
            return
        # model of the path condition (strict variant preferred: interior point)
        # rint/floor symbols are real-valued in the encoding; for the witness ask for integer values first
        ints = []
        for (fn, rr, xx) in self.round_atoms:
            z = S.REG.atoms[_atom_of(rr)].z
            ints.append(z3.Or(*[z == k for k in (-2, -1, 0, 1, 2)]))
        r, m = ("unknown", None)
        vt = self.o.get("validate_timeout_ms", 3000)
        if ints:
            r, m = self.check(ints, full=True, strict=True, timeout_ms=vt)
        if r != "sat":
            r, m = self.check([], full=True, strict=True, timeout_ms=vt)
        if r != "sat":
            r, m = self.check([], full=True, timeout_ms=vt)
        if r != "sat":
            if raised is not None:
                self.errors.append(dict(kind="exception-on-undecided-path", config=self.config,
                                        msg=repr(raised), tb=raised_tb))
            self.stats["validation_skipped"] += 1
            self.stats["skip_no_model"] = self.stats.get("skip_no_model", 0) + 1
            return
        inputs = self.inputs_from_model(m)
        if raised is not None:
            rep = self.replay(inputs)
            self.stats["obligations"] += 1
            if rep.get("exception") and type(raised).__name__ in rep["exception"]:
                self.stats["violated"] += 1
                path = self.write_replay("no_exception", inputs, rep)
                self.violations.append(dict(obligation="no_exception", config=self.config, harness=self.hname,
                                            replay=path, exception=rep["exception"], failed=rep["failed"][:10]))
            else:
                self.errors.append(dict(kind="exception-only-under-facade", config=self.config,
                                        msg=repr(raised), tb=raised_tb, concrete=rep.get("exception")))
            return
        if not self.o["validate"]:
            return
        # trace validation: real code on the model vs symbolic outputs evaluated on the model
        rep = self.replay(inputs, want_outputs=True)
        if rep.get("harness_exception"):
            self.errors.append(dict(kind="harness-exception-in-concrete-replay", config=self.config,
                                    msg=rep["harness_exception"], tb=rep.get("traceback")))
            return
        if rep.get("aborted"):
            self.stats["validation_skipped"] += 1
            return
        if rep.get("exception"):
            self.stats["obligations"] += 1
            self.stats["violated"] += 1
            path = self.write_replay("no_exception", inputs, rep)
            self.violations.append(dict(obligation="no_exception", config=self.config, harness=self.hname,
                                        replay=path, exception=rep["exception"], failed=rep["failed"][:10]))
            return
        if rep["failed"]:
            # a concrete witness of the path condition violates an obligation on the real code
            self.stats["violated"] += 1
            path = self.write_replay(rep["failed"][0], inputs, rep)
            self.violations.append(dict(obligation=rep["failed"][0], config=self.config, harness=self.hname,
                                        replay=path, failed=rep["failed"][:10], exception=None,
                                        via="path-model replay"))
            return
        env = self.env_from_inputs(inputs)
        mism = []
        for k, sv in self.outputs.items():
            cv = rep["outputs"].get(k)
            if cv is None:
                mism.append((k, "missing in concrete run"))
                continue
            ok, why = compare_output(sv, cv, env, self.o.get("validate_rtol", 1e-6), self.o.get("validate_atol", 1e-8))
            if not ok:
                mism.append((k, why))
        if mism:
            if S.REG.uninterpreted and self.o["abstract"]:
                self.stats["validation_skipped"] += 1
            elif self._near_boundary(env):
                self.stats["validation_skipped"] += 1
            else:
                self.errors.append(dict(kind="trace-validation-mismatch", config=self.config,
                                        msg=str(mism[:5]), inputs={k: float(v) for k, v in inputs.items()}))
        else:
            self.stats["validated"] += 1

    def _near_boundary(self, env):
        return False

    # ---------------------------------------------------------------- exploration
    def explore(self):
        import signal

        class HardTimeout(BaseException):
            pass

        def _alarm(signum, frame):
            raise HardTimeout()
        hard = None
        if self.o.get("budget_s"):
            hard = self.o["budget_s"] * 1.5 + 60
            try:
                signal.signal(signal.SIGALRM, _alarm)
                signal.setitimer(signal.ITIMER_REAL, hard)
            except (ValueError, AttributeError):       # not in the main thread
                hard = None
        try:
            self._explore()
        except HardTimeout:
            self.stats["incomplete"] = True
            self.undecided_names.append(f"hard time limit ({hard:.0f}s) hit @ {self.config}")
            try:
                from . import bind
                bind.unbind_all()
            except Exception:
                pass
        finally:
            if hard is not None:
                signal.setitimer(signal.ITIMER_REAL, 0)
        S.ENGINE = None
        out = dict(prop=self.prop, harness=self.hname, config=self.config, stats=self.stats,
                   samples=self.samples, violations=self.violations, errors=self.errors,
                   undecided=self.undecided_names[:20], functions=sorted(self.functions),
                   assumptions=sorted(self.assumptions), lemmas=sorted(self.lemmas),
                   wall_s=time.time() - self.t0)
        return out

    def _explore(self):
        self.work = [[]]
        self._hard_stop = False
        while self.work:
            if self._hard_stop:
                self.stats["incomplete"] = True
                break
            if self.stats["paths"] >= self.o["max_paths"]:
                self.stats["incomplete"] = True
                break
            b = self.o.get("budget_s")
            if b and time.time() - self.t0 > b:
                self.stats["incomplete"] = True
                break
            prefix = self.work.pop()
            self.run_path(prefix)


def _atom_of(r: SR) -> int:
    (m, c), = r.n.items()
    return m[0][0]


def compare_output(sv, cv, env, rtol=1e-6, atol=1e-8):
    """symbolic output evaluated under env vs concrete output"""
    try:
        if isinstance(sv, (SR, SC)):
            val = sv.feval(env)
            return (close(val, cv, rtol, atol), f"{val} vs {cv}")
        if isinstance(sv, (int, float, complex, np.number, str, bool, type(None))):
            if isinstance(sv, str) or sv is None:
                return (sv == cv, f"{sv} vs {cv}")
            return (close(sv, cv, rtol, atol), f"{sv} vs {cv}")
        if isinstance(sv, (list, tuple)):
            if len(sv) != len(cv):
                return False, f"length {len(sv)} vs {len(cv)}"
            for a, b in zip(sv, cv):
                ok, why = compare_output(a, b, env, rtol, atol)
                if not ok:
                    return ok, why
            return True, ""
        if isinstance(sv, dict):
            for k in sv:
                ok, why = compare_output(sv[k], cv[k], env, rtol, atol)
                if not ok:
                    return ok, f"{k}: {why}"
            return True, ""
        sa = np.asarray(sv)
        ca = np.asarray(cv)
        if sa.shape != ca.shape:
            return False, f"shape {sa.shape} vs {ca.shape}"
        for idx in np.ndindex(sa.shape):
            a = sa[idx]
            if isinstance(a, (SR, SC)):
                a = a.feval(env)
            if not close(a, ca[idx], rtol, atol):
                return False, f"{idx}: {a} vs {ca[idx]}"
        return True, ""
    except Exception as e:      # pragma: no cover
        return False, f"compare error {e!r}"


# --------------------------------------------------------------------------- contexts

class _RelaxedModel:
    """model of the real relaxation: integer atoms are read from their relaxed twins"""

    def __init__(self, m):
        self.m = m

    def eval(self, t, model_completion=True):
        if z3.is_int(t):
            v = self.m.eval(z3.Real(str(t) + "!relaxed"), model_completion=True)
            return v
        return self.m.eval(t, model_completion=model_completion)


class _CtxBase:
    def __init__(self, eng):
        self.eng = eng
        self._tmp = []
        self.frame = bool(eng.o.get("frame"))

    def tmpdir(self):
        d = tempfile.mkdtemp(prefix="symx_")
        self._tmp.append(d)
        return d

    def cleanup(self):
        for d in self._tmp:
            shutil.rmtree(d, ignore_errors=True)
        self._tmp = []

    def repo(self, modname):
        import importlib
        from . import bind
        m = importlib.import_module(modname)
        if self.mode == "sym":
            bind.bind_all()
        return m

    def covers(self, *names):
        self.eng.functions.update(names)

    def assumes(self, *texts):
        self.eng.assumptions.update(texts)

    def lemma(self, text):
        self.eng.lemmas.add(text)


class SymCtx(_CtxBase):
    mode = "sym"

    def real(self, name, positive=False, nonneg=False, lo=None, hi=None):
        v = S.var(name, positive=positive, nonneg=nonneg)
        if lo is not None:
            self.assume(v >= lo)
        if hi is not None:
            self.assume(v <= hi)
        return v

    def integer(self, name, lo=None, hi=None):
        self.eng.has_int = True
        v = S.var(name, integer=True)
        if lo is not None:
            self.assume(v >= lo)
        if hi is not None:
            self.assume(v <= hi)
        return v

    def angle(self, name, polar=False):
        c = S.var(name + ".cos")
        s = S.var(name + ".sin", nonneg=polar)
        self.assume(c * c + s * s == 1)
        P.SQUARE_RULES[_atom_of(s)] = (1 - c * c).n
        return SAngle(c, s, kind="free")

    def array(self, name, shape, **kw):
        from .npf import SArr
        if isinstance(shape, int):
            shape = (shape,)
        a = np.empty(shape, dtype=object)
        for idx in np.ndindex(*shape):
            a[idx] = self.real(name + "[" + ",".join(map(str, idx)) + "]", **kw)
        a = a.view(SArr)
        if self.frame:
            self.protect(f"array {name}", a)
        return a

    def const_array(self, values, dtype=float):
        from .npf import sarr
        return sarr(values)

    def assume(self, cond):
        self.eng.assume(cond)

    def define(self, name, value):
        """fresh symbol constrained to equal `value` (keeps later terms unexpanded)"""
        v = S.var(name)
        S.REG.inputs.remove(_atom_of(v))
        a = S.REG.atoms[_atom_of(v)]
        a.kind = "def"
        a.data = value
        a.fe = lambda env, value=value: value.feval(env)
        self.eng.assume(v == value)
        return v

    def oblige(self, name, cond, then_assume=False, using=None):
        if self.frame and not name.startswith("frame"):
            return          # frame mode (C18): the host harness' own obligations belong to its property, not to this run
        self.eng.oblige(name, cond, then_assume, using)

    def output(self, name, value):
        self.eng.outputs[name] = value

    def fmt(self, x):
        if isinstance(x, SR):
            return str(x)
        return repr(x)

    def protect(self, name, arr):
        """register an input array under the frame condition `unchanged by the calls that follow`"""
        if not isinstance(arr, np.ndarray):
            return arr
        from . import npf
        if any(a is arr for _, a, _, _ in self.eng.protected):
            return arr
        self.eng.protected.append((name, arr, list(arr.flat), arr.shape))
        npf.PROTECTED.append((name, arr))
        return arr

    def check_unchanged(self, label="frame"):
        from . import npf, ops as O
        for (name, arr, old, shape) in self.eng.protected:
            oname = f"{label}: input array {name} is unchanged"
            cur = list(arr.flat)
            if arr.shape != shape or len(cur) != len(old):
                self.oblige(oname, False)
                continue
            cond = True
            for a, b in zip(cur, old):
                if a is b:
                    continue
                if isinstance(a, (SR, SC)) or isinstance(b, (SR, SC)):
                    cond = O.And(cond, O.eq(a, b))
                else:
                    try:
                        same = bool(a == b)
                    except Exception:
                        same = False
                    cond = O.And(cond, same)
                if cond is False:
                    break
            self.oblige(oname, cond)
            writes = [w for w in npf.WRITES if w[0] == name]
            if writes and (cond is True or getattr(cond, "structural", False)):
                self.eng.float_frame_check(oname, writes)

    def find_round(self, fn, x):
        return self.eng.find_round(fn, x)

    def reachable(self):
        """vacuity guard: the current path condition must be satisfiable"""
        r, _ = self.eng.check([], full=True)
        return r == "sat"


class ConcreteCtx(_CtxBase):
    mode = "conc"

    def __init__(self, eng, inputs):
        super().__init__(eng)
        self.inputs = inputs
        self.failed = []
        self.details = {}
        self.outputs = {}
        self.checked = 0

    def real(self, name, **kw):
        return float(self.inputs.get(name, 0.0))

    def integer(self, name, **kw):
        return int(self.inputs.get(name, 0))

    def angle(self, name, polar=False):
        c = float(self.inputs.get(name + ".cos", 1.0))
        s = float(self.inputs.get(name + ".sin", 0.0))
        return math.atan2(s, c)

    def array(self, name, shape, **kw):
        if isinstance(shape, int):
            shape = (shape,)
        a = np.zeros(shape, dtype=float)
        for idx in np.ndindex(*shape):
            a[idx] = self.real(name + "[" + ",".join(map(str, idx)) + "]")
        if self.frame:
            self.protect(f"array {name}", a)
        return a

    def const_array(self, values, dtype=float):
        return np.array(values, dtype=dtype)

    def define(self, name, value):
        return value

    def assume(self, cond):
        if not bool(cond):
            # the witness does not satisfy the precondition in floating point: not a valid replay
            raise PathAbort("assumption false in concrete replay")

    def oblige(self, name, cond, then_assume=False, using=None):
        if self.frame and not name.startswith("frame"):
            return
        self.checked += 1
        ok = bool(cond)
        if not ok:
            self.failed.append(name)
            if hasattr(cond, "why"):
                self.details[name] = cond.why

    def output(self, name, value):
        self.outputs[name] = value

    def fmt(self, x):
        return repr(float(x))

    def protect(self, name, arr):
        if not isinstance(arr, np.ndarray):
            return arr
        if not hasattr(self, "protected"):
            self.protected = []
        if any(a is arr for _, a, _ in self.protected):
            return arr
        self.protected.append((name, arr, arr.copy()))
        return arr

    def check_unchanged(self, label="frame"):
        from .ops import Verdict
        for (name, arr, saved) in getattr(self, "protected", []):
            same = arr.shape == saved.shape and arr.dtype == saved.dtype and arr.tobytes() == saved.tobytes()
            why = ""
            if not same:
                try:
                    bad = np.argwhere(~((arr == saved) | ((arr != arr) & (saved != saved))))
                    i = tuple(bad[0]) if len(bad) else ()
                    why = f"{name}{list(i)}: {saved[i]!r} -> {arr[i]!r} ({len(bad)} element(s) differ)" if len(bad) else "bytes differ"
                except Exception:
                    why = "shape/dtype/bytes differ"
            self.oblige(f"{label}: input array {name} is unchanged", Verdict(same, why))

    def reachable(self):
        return True
