"""Bind / unbind the facades into the module globals of every loaded PyMatterSim module.

No source change is made: function objects of /repo's working tree are executed as they are;
only the names `np`, `pd`, `cmath`, `sqrt`, `modf`, `float`, `int`, `round` that their globals resolve
are redirected for the duration of a symbolic run.
"""
import builtins
import sys

# modules whose math.sqrt/modf calls are pure integer work (perfect-square tests): they keep the real math functions
CONCRETE_MATH_MODULES = {"PyMatterSim.utils.wavevector"}
_SAVED = {}     # (modname, attr) -> original or _MISSING
_MISSING = object()
BOUND = False


def _targets():
    return [m for n, m in list(sys.modules.items()) if n.startswith("PyMatterSim.") and m is not None]


def bind_all():
    global BOUND
    from . import npf, pdf, builtins_f
    for m in _targets():
        g = m.__dict__
        repl = {}
        if "np" in g:
            repl["np"] = npf.FACADE
        if "pd" in g:
            repl["pd"] = pdf.FACADE
        if "cmath" in g:
            repl["cmath"] = builtins_f.CMATH
        concrete_only = m.__name__ in CONCRETE_MATH_MODULES
        if not concrete_only and ("sqrt" in g and getattr(g["sqrt"], "__module__", None) == "math" or g.get("sqrt") is builtins_f.sym_sqrt):
            repl["sqrt"] = builtins_f.sym_sqrt
        if not concrete_only and "modf" in g:
            repl["modf"] = builtins_f.sym_modf
        repl["float"] = builtins_f.sym_float
        repl["int"] = builtins_f.sym_int
        repl["isinstance"] = builtins_f.sym_isinstance
        for k, v in repl.items():
            key = (m.__name__, k)
            if key not in _SAVED:
                _SAVED[key] = g.get(k, _MISSING)
            g[k] = v
    BOUND = True


def unbind_all():
    global BOUND
    for (mn, k), v in list(_SAVED.items()):
        m = sys.modules.get(mn)
        if m is None:
            continue
        if v is _MISSING:
            m.__dict__.pop(k, None)
        else:
            m.__dict__[k] = v
    _SAVED.clear()
    BOUND = False
