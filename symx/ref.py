"""Independent reference models shared by several checks (never call the code under test)."""
import math
from fractions import Fraction

from . import ops as O
from . import scalar as S
from .scalar import SR, SC


def legendre_assoc(l, m, c, s):
    """Condon-Shortley associated Legendre P_l^m(c) with s = sqrt(1-c^2) >= 0, 0 <= m <= l (upward recurrence)"""
    # P_m^m = (-1)^m (2m-1)!! s^m
    pmm = 1
    for k in range(1, m + 1):
        pmm = pmm * (-(2 * k - 1)) * s
    if l == m:
        return pmm
    pm1 = c * (2 * m + 1) * pmm
    if l == m + 1:
        return pm1
    a, b = pmm, pm1
    for ll in range(m + 2, l + 1):
        nxt = (c * (2 * ll - 1) * b - (ll + m - 1) * a) * (Fraction(1, ll - m) if isinstance(c, SR) else 1.0 / (ll - m))
        a, b = b, nxt
    return b


def ylm(ctx, l, m, polar, azim):
    """orthonormal Condon-Shortley Y_l^m(polar theta, azimuth phi) as (re, im)"""
    c, s = O.cos_sin(polar)
    cp, sp = O.cos_sin(azim)
    am = abs(m)
    ratio = Fraction(math.factorial(l - am), math.factorial(l + am)) * (2 * l + 1) / 4
    if ctx.mode == "sym":
        norm = S.sqrt(SR.const(ratio) / S.pi())
        e = SC(cp, sp) ** am
        ere, eim = e.re, e.im
    else:
        norm = math.sqrt(float(ratio) / math.pi)
        e = complex(cp, sp) ** am
        ere, eim = e.real, e.imag
    p = legendre_assoc(l, am, c, s)
    re, im = norm * p * ere, norm * p * eim
    if m < 0:
        sg = -1 if am % 2 else 1
        re, im = sg * re, -sg * im
    return re, im
