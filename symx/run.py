"""CLI / orchestration: ./check <ID> --tier quick|thorough [--replay file]"""
import argparse
import importlib
import json
import multiprocessing as mp
import os
import sys
import time
import traceback

ROOT = os.path.dirname(os.path.dirname(os.path.abspath(__file__)))
OUT = os.environ.get("VERIF_OUT") or ROOT      # evidence/ and replays/ go here (VERIF_OUT: test aid for runs on seeded changes)


class H:
    """a harness: fn(ctx, **config); configs(tier) -> list of config dicts; opts for the engine"""

    def __init__(self, name, fn, configs, **opts):
        self.name, self.fn, self.configs, self.opts = name, fn, configs, opts


def load(prop):
    return importlib.import_module("checks." + prop.lower())


def _task(args):
    prop, hname, cfg, opts = args
    try:
        import logging
        import warnings
        logging.disable(logging.WARNING)
        warnings.simplefilter("ignore")
        sys.setrecursionlimit(20000)
        from symx.engine import Engine
        mod = load(prop)
        h = next(x for x in mod.HARNESSES if x.name == hname)
        o = dict(h.opts)
        o.update(opts)
        eng = Engine(prop, hname, h.fn, cfg, o)
        return eng.explore()
    except BaseException as e:      # noqa
        return dict(prop=prop, harness=hname, config=cfg, fatal=f"{type(e).__name__}: {e}",
                    tb=traceback.format_exc(limit=20), stats={}, violations=[], errors=[
                        dict(kind="fatal", msg=f"{type(e).__name__}: {e}", tb=traceback.format_exc(limit=20), config=cfg)],
                    samples=[], undecided=[], functions=[], assumptions=[], lemmas=[], wall_s=0.0)


def run_tasks(tasks, jobs):
    """one subprocess per (harness, configuration): crash isolation and a hard wall-clock limit per task"""
    import subprocess
    import tempfile
    tmp = tempfile.mkdtemp(prefix="symx_tasks_")
    pending = list(enumerate(tasks))
    running = {}
    results = [None] * len(tasks)
    attempts = {}
    env = dict(os.environ, PYTHONPATH=ROOT + os.pathsep + os.environ.get("PYTHONPATH", ""), PYTHONDONTWRITEBYTECODE="1")
    try:
        while pending or running:
            while pending and len(running) < jobs:
                i, t = pending.pop(0)
                inp = os.path.join(tmp, f"t{i}.in.json")
                outp = os.path.join(tmp, f"t{i}.out.json")
                with open(inp, "w") as fh:
                    json.dump(t, fh)
                if os.path.exists(outp):
                    os.remove(outp)
                p = subprocess.Popen([sys.executable, "-m", "symx.run", "--task", inp, "--out", outp], env=env, cwd=ROOT,
                                     stdout=subprocess.DEVNULL, stderr=subprocess.PIPE)
                limit = t[3].get("budget_s", 240) * 1.5 + 120
                running[i] = (p, time.time(), limit, outp, t)
            time.sleep(0.05)
            for i in list(running):
                p, st, limit, outp, t = running[i]
                rc = p.poll()
                if rc is None:
                    if time.time() - st > limit:
                        p.kill()
                        p.wait()
                        del running[i]
                        results[i] = _stub(t, incomplete=True, note=f"task killed at the hard limit of {limit:.0f}s")
                    continue
                del running[i]
                if os.path.exists(outp):
                    try:
                        results[i] = json.load(open(outp))
                        continue
                    except Exception:
                        pass
                err = (p.stderr.read() or b"").decode(errors="replace")[-1500:]
                attempts[i] = attempts.get(i, 0) + 1
                if attempts[i] <= 1:
                    pending.append((i, t))      # a crashed worker (e.g. native fault in the solver) is retried once
                else:
                    results[i] = _stub(t, error=f"worker exited with code {rc} twice: {err}")
    finally:
        for p, *_ in running.values():
            try:
                p.kill()
            except Exception:
                pass
        import shutil
        shutil.rmtree(tmp, ignore_errors=True)
    return results


def _stub(t, incomplete=False, note=None, error=None):
    prop, hname, cfg, opts = t
    r = dict(prop=prop, harness=hname, config=cfg, stats=dict(incomplete=incomplete), violations=[], errors=[], samples=[],
             undecided=[f"{note} @ {cfg}"] if note else [], functions=[], assumptions=[], lemmas=[], wall_s=0.0)
    if error:
        r["errors"].append(dict(kind="worker-crash", msg=error, config=cfg))
    return r


def known_findings():
    p = os.path.join(ROOT, "known_findings.json")
    if not os.path.exists(p):
        return []
    return json.load(open(p)).get("findings", [])


def match_known(prop, v, findings):
    for f in findings:
        if f.get("status") != "open" or f.get("property") != prop:
            continue
        if f.get("harness") and f["harness"] != v.get("harness"):
            continue
        cm = f.get("config_match", {})
        if any(v.get("config", {}).get(k) != val for k, val in cm.items()):
            continue
        pref = f.get("obligation_prefix", "")
        names = [v.get("obligation", "")] + list(v.get("failed", []))
        if pref and not any(n.startswith(pref) for n in names):
            continue
        return f
    return None


def replay_file(prop, path):
    from symx.engine import Engine
    doc = json.load(open(path))
    mod = load(prop)
    h = next(x for x in mod.HARNESSES if x.name == doc["harness"])
    eng = Engine(prop, h.name, h.fn, doc["config"], dict(h.opts))
    eng.mode_bound = False
    from fractions import Fraction
    inputs = {k: Fraction(v) for k, v in doc["inputs"].items()}
    rep = eng.replay(inputs)
    print(f"replay of {path} on /repo working tree (real numpy, no facade)")
    print(" harness:", h.name, "config:", doc["config"])
    print(" inputs:", {k: float(v) for k, v in inputs.items()})
    print(" obligations checked concretely:", rep.get("checked"))
    print(" failed:", rep["failed"])
    for k, v in list(rep.get("details", {}).items())[:10]:
        print("   ", k, "->", v)
    print(" exception:", rep.get("exception"))
    bad = bool(rep["failed"] or rep.get("exception"))
    print("REPRODUCED" if bad else "NOT REPRODUCED")
    return 1 if bad else 0


def main(argv=None):
    ap = argparse.ArgumentParser()
    ap.add_argument("prop", nargs="?", default="")
    ap.add_argument("--tier", default=os.environ.get("VERIF_TIER", "quick"))
    ap.add_argument("--replay")
    ap.add_argument("--jobs", type=int, default=int(os.environ.get("VERIF_JOBS", "0")) or (os.cpu_count() or 4))
    ap.add_argument("--only", help="run only this harness")
    ap.add_argument("--serial", action="store_true")
    ap.add_argument("--task")
    ap.add_argument("--out")
    a = ap.parse_args(argv)
    if a.task:
        sys.path.insert(0, ROOT)
        t = json.load(open(a.task))
        res = _task(tuple(t))
        with open(a.out + ".tmp", "w") as fh:
            json.dump(res, fh, default=str)
        os.replace(a.out + ".tmp", a.out)
        return 0
    prop = a.prop.upper()
    sys.path.insert(0, ROOT)
    import logging
    logging.disable(logging.WARNING)
    if a.replay:
        return replay_file(prop, a.replay)
    seed = int(os.environ.get("VERIF_SEED", "0"))
    t0 = time.time()
    import glob
    for f in glob.glob(os.path.join(OUT, "replays", f"{prop}_*.json")):
        os.remove(f)
    mod = load(prop)
    tier = a.tier
    tasks = []
    for h in mod.HARNESSES:
        if a.only and h.name != a.only:
            continue
        for cfg in h.configs(tier, seed):
            opts = dict(seed=seed, budget_s=h.opts.get("budget_s", 240), second_solver=(2 if tier == "quick" else 6))
            if tier == "thorough":
                opts["budget_s"] = h.opts.get("budget_s_thorough", 1800)
                opts.update(timeout_ms=h.opts.get("timeout_ms_thorough", 60000), max_paths=h.opts.get("max_paths_thorough", 50000))
            tasks.append((prop, h.name, cfg, opts))
    pre = []
    if hasattr(mod, "prelude"):
        pre = mod.prelude(tier, seed)      # solver-side queries that are not path explorations
    if a.serial or a.jobs <= 1 or len(tasks) <= 1:
        results = [_task(t) for t in tasks]
    else:
        results = run_tasks(tasks, a.jobs)
    return finish(prop, tier, seed, mod, results, pre, time.time() - t0)


def finish(prop, tier, seed, mod, results, pre, wall):
    findings = known_findings()
    agg = dict(paths=0, decisions=0, forks=0, solver_calls=0, solver_s=0.0, obligations=0, discharged=0,
               structural=0, structural_confirmed=0, undecided=0, violated=0, unconfirmed=0, validated=0, validation_skipped=0,
               maybe_infeasible=0, aborted_paths=0, second_solver_asked=0, second_solver_agree=0, second_solver_inconclusive=0,
               float_frame_replays=0, by_linear_abstraction=0, from_premises=0)
    incomplete = False
    samples, errors, violations, undec = [], [], [], []
    functions, assumptions, lemmas = set(), set(), set()
    per_harness = {}
    for r in results:
        st = r.get("stats", {})
        for k in agg:
            agg[k] += st.get(k, 0)
        incomplete = incomplete or st.get("incomplete", False)
        samples.extend(r.get("samples", [])[:2])
        errors.extend(r.get("errors", []))
        violations.extend(r.get("violations", []))
        undec.extend(r.get("undecided", []))
        functions.update(r.get("functions", []))
        assumptions.update(r.get("assumptions", []))
        lemmas.update(r.get("lemmas", []))
        ph = per_harness.setdefault(r["harness"], dict(configs=0, paths=0, obligations=0, discharged=0, undecided=0, wall_s=0.0))
        ph["configs"] += 1
        ph["paths"] += st.get("paths", 0)
        ph["obligations"] += st.get("obligations", 0)
        ph["discharged"] += st.get("discharged", 0)
        ph["undecided"] += st.get("undecided", 0) + st.get("unconfirmed", 0)
        ph["wall_s"] = round(ph["wall_s"] + r.get("wall_s", 0.0), 2)
    if os.environ.get("SYMX_VERBOSE"):
        for r in sorted(results, key=lambda r: -r.get("wall_s", 0.0)):
            st = r.get("stats", {})
            print(f"  [{r['harness']}] {r.get('wall_s', 0.0):7.1f}s paths={st.get('paths')} obl={st.get('obligations')} "
                  f"undec={st.get('undecided', 0) + st.get('unconfirmed', 0)} inc={st.get('incomplete')} cfg={r.get('config')}")
    for p in pre:
        agg["obligations"] += p.get("obligations", 0)
        agg["discharged"] += p.get("discharged", 0)
        agg["undecided"] += p.get("undecided", 0)
        agg["solver_s"] += p.get("solver_s", 0.0)
        agg["solver_calls"] += p.get("obligations", 0)
        samples.extend(p.get("samples", [])[:2])
        violations.extend(p.get("violations", []))
        errors.extend(p.get("errors", []))
        functions.update(p.get("functions", []))
        lemmas.update(p.get("lemmas", []))
        per_harness[p["name"]] = dict(configs=1, paths=0, obligations=p.get("obligations", 0),
                                      discharged=p.get("discharged", 0), undecided=p.get("undecided", 0),
                                      wall_s=round(p.get("wall_s", 0.0), 2))
    new_viol, known_hits = [], []
    for v in violations:
        f = match_known(prop, v, findings)
        if f:
            known_hits.append((f, v))
        else:
            new_viol.append(v)
    seen = set()
    for f, v in known_hits:
        if f["id"] in seen:
            continue
        seen.add(f["id"])
        print(f"KNOWN-FINDING: property={prop} {f['what']}")
    import re as _re
    groups = {}
    for v in new_viol:
        cfgk = {k: val for k, val in v.get("config", {}).items() if not isinstance(val, (list, dict))}
        key = (v.get("harness"), json.dumps(cfgk, sort_keys=True, default=str),
               _re.sub(r"\d+", "#", str(v.get("obligation"))), str(v.get("exception"))[:80])
        groups.setdefault(key, []).append(v)
    for key, vs in sorted(groups.items(), key=lambda kv: -len(kv[1]))[:40]:
        v = vs[0]
        print(f"VIOLATION property={prop} replay={v.get('replay')}")
        print(f"  x{len(vs)} harness={key[0]} config={key[1]} obligation={key[2]} exception={key[3]}")
    for e in errors[:10]:
        print(f"HARNESS-ERROR kind={e.get('kind')} config={e.get('config')} msg={e.get('msg')}")
        if e.get("tb"):
            print(e["tb"])
    if undec:
        print(f"UNDECIDED ({len(undec)}):", undec[:10])
    if incomplete:
        print("INCOMPLETE: exploration bound hit (never reported as success for the unexplored part)")
    ev = dict(
        property_id=prop, tier=tier, seed=seed, level="model_checking",
        coverage=dict(
            states=max(agg["paths"], 0), transitions=agg["decisions"],
            traces_validated_against_impl=agg["validated"],
            samples=samples[:12] or [dict(note="no obligation sample recorded")],
            obligations=agg["obligations"], discharged=agg["discharged"],
            discharged_by_normal_form=agg["structural"],
            normal_form_identities_confirmed_by_solver=agg["structural_confirmed"], undecided=agg["undecided"] + agg["unconfirmed"],
            unconfirmed_sat=agg["unconfirmed"], forks=agg["forks"], solver_queries=agg["solver_calls"],
            solver_s=round(agg["solver_s"], 3), validation_skipped=agg["validation_skipped"],
            paths_with_unknown_feasibility=agg["maybe_infeasible"], aborted_paths=agg["aborted_paths"],
            decided_in_linear_abstraction=agg["by_linear_abstraction"], decided_from_stated_premises=agg["from_premises"],
            second_solver=dict(binary="/usr/bin/z3 (4.8.12)", queries=agg["second_solver_asked"], agree=agg["second_solver_agree"],
                               inconclusive=agg["second_solver_inconclusive"]),
            float64_replays_of_monitored_writes=agg["float_frame_replays"],
            incomplete=incomplete, exhaustive=not incomplete,
            functions_encoded=sorted(functions), per_harness=per_harness,
            bounds=getattr(mod, "BOUNDS", {}).get(tier, ""), lemmas=sorted(lemmas),
            stubs=getattr(mod, "STUBS", []), harness_errors=len(errors),
            known_findings_hit=[f["id"] for f in {id(f): f for f, _ in known_hits}.values()],
            explanation="bounded symbolic execution of the real functions on proxy scalars; every branch and every "
                        "obligation decided by z3 (QF_NRA/LRA) per path; sat models replayed on the real code"),
        assumptions=sorted(assumptions) + list(getattr(mod, "ASSUMPTIONS", [])),
        wall_s=round(wall, 2), violations=len(new_viol))
    if ev["coverage"]["states"] < 1:
        ev["coverage"]["states"] = 1 if pre else 0
    if ev["coverage"]["transitions"] < 1:
        ev["coverage"]["transitions"] = max(1, agg["solver_calls"])
    os.makedirs(os.path.join(OUT, "evidence"), exist_ok=True)
    with open(os.path.join(OUT, "evidence", f"{prop}.json"), "w") as f:
        json.dump(ev, f, indent=1, default=str)
    print(f"{prop} tier={tier}: paths={agg['paths']} decisions={agg['decisions']} obligations={agg['obligations']} "
          f"discharged={agg['discharged']} (normal-form {agg['structural']}, solver-confirmed {agg['structural_confirmed']}) undecided={agg['undecided'] + agg['unconfirmed']} "
          f"validated={agg['validated']} violations={len(new_viol)} known={len(known_hits)} errors={len(errors)} "
          f"solver_s={agg['solver_s']:.1f} wall={wall:.1f}s")
    if new_viol:
        return 1
    if errors or agg["discharged"] == 0:
        return 3
    return 0


if __name__ == "__main__":
    sys.exit(main())
