"""pandas facade: real pandas; DataFrame/Series subclasses add groupby(key).mean() for symbolic (object) columns,
which pandas refuses to aggregate (DESIGN 1.3).  Group keys are compared with == / < on the proxies, i.e. the
engine decides them (constants of the form k*sqrt(q)*pi^a are compared exactly without the solver)."""
import builtins

import numpy as _np
import pandas as _pd

from . import scalar as S
from .scalar import SR, SC, SB


def _is_sym_frame(obj):
    if isinstance(obj, _pd.DataFrame):
        return builtins.any(dt == object for dt in obj.dtypes)
    return obj.dtype == object


class _SymGroupBy:
    def __init__(self, obj, by):
        self.obj = obj
        if isinstance(by, _pd.Series):
            self.keyname = by.name
            keys = list(by.values)
        elif isinstance(by, str):
            self.keyname = by
            keys = list(obj[by].values)
        else:
            raise S.SymbolicLeak("groupby key kind not modelled")
        groups = []     # (key, [row positions])
        for pos, k in enumerate(keys):
            for g in groups:
                if builtins.bool(g[0] == k):
                    g[1].append(pos)
                    break
            else:
                groups.append((k, [pos]))
        # pandas sorts group keys ascending (insertion sort with symbolic comparisons)
        srt = []
        for g in groups:
            i = 0
            while i < len(srt) and builtins.bool(srt[i][0] < g[0]):
                i += 1
            srt.insert(i, g)
        self.groups = srt

    def _mean_of(self, values, rows):
        tot = 0
        for r in rows:
            tot = tot + values[r]
        return tot / len(rows)

    def mean(self):
        keys = [g[0] for g in self.groups]
        idx = _pd.Index(_np.array(keys, dtype=object), name=self.keyname)
        if isinstance(self.obj, _pd.DataFrame):
            data = {}
            for c in self.obj.columns:
                if c == self.keyname:
                    continue
                vals = self.obj[c].values
                data[c] = _np.array([self._mean_of(vals, g[1]) for g in self.groups], dtype=object)
            return SDataFrame(data, index=idx)
        vals = self.obj.values
        return SSeries(_np.array([self._mean_of(vals, g[1]) for g in self.groups], dtype=object), index=idx, name=self.obj.name)


class SSeries(_pd.Series):
    @property
    def _constructor(self):
        return SSeries

    @property
    def _constructor_expanddim(self):
        return SDataFrame

    def groupby(self, by=None, *a, **k):
        if _is_sym_frame(self) or (isinstance(by, _pd.Series) and by.dtype == object):
            return _SymGroupBy(self, by)
        return _pd.Series.groupby(self, by, *a, **k)

    def round(self, decimals=0, *a, **k):
        if self.dtype == object:
            return self.copy()
        return _pd.Series.round(self, decimals, *a, **k)


class SDataFrame(_pd.DataFrame):
    @property
    def _constructor(self):
        return SDataFrame

    @property
    def _constructor_sliced(self):
        return SSeries

    def groupby(self, by=None, *a, **k):
        if _is_sym_frame(self) or (isinstance(by, _pd.Series) and by.dtype == object):
            return _SymGroupBy(self, by)
        return _pd.DataFrame.groupby(self, by, *a, **k)

    def round(self, decimals=0, *a, **k):
        if _is_sym_frame(self):
            return self.copy()      # decimal rounding is the identity in the real-number model (stated deviation)
        return _pd.DataFrame.round(self, decimals, *a, **k)

    def to_csv(self, path_or_buf=None, *a, **k):
        RECORD["to_csv"].append((path_or_buf, self.copy()))
        return None


RECORD = {"to_csv": []}


class _Facade:
    DataFrame = SDataFrame
    Series = SSeries

    def __getattr__(self, name):
        return getattr(_pd, name)


FACADE = _Facade()
