"""pandas facade: real pandas; only what refuses object columns is added (DESIGN 1.3)."""
import pandas as _pd


class _Facade:
    def __getattr__(self, name):
        return getattr(_pd, name)


FACADE = _Facade()
