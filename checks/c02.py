"""C02 minimum image: lattice translations only, into the half cell (DESIGN C02)."""
from fractions import Fraction
from itertools import product

import numpy as np

from symx import ops as O, lemmas
from symx.run import H

FUNCS = ["PyMatterSim.utils.pbc.remove_pbc"]
BOUNDS = {
    "quick": "d in {2,3}; cells: symbolic orthogonal and symbolic LAMMPS lower-triangular (positive diagonal); n<=2 "
             "displacement rows and the (d,) shape; all 2^d masks; all real values symbolic; sequences of three calls alternating "
             "between an orthogonal cell and a sheared cell with the same edge lengths",
    "thorough": "as quick plus n=3 rows and integer-shift/idempotence claims on every mask",
}
STUBS = ["np.linalg.inv -> adjugate/determinant closed form (n<=3) on symbolic entries",
         "np.rint -> real function symbol + solver-proved lemma instances (L1-L4)"]
ASSUMPTIONS = ["floats modelled as reals", "cell diagonal entries > 0 (invertible LAMMPS-style cells)",
               "general (non-triangular) 3x3 symbolic cells outside the claim"]


def prelude(tier, seed):
    return [lemmas.prove_all()]


def make_cell(ctx, d, cell):
    """symbolic cell matrix (rows are cell vectors), reference inverse as closed form"""
    if ctx.mode == "sym":
        from symx.npf import f_zeros
        Hm = f_zeros((d, d))
    else:
        Hm = np.zeros((d, d))
    for i in range(d):
        Hm[i, i] = ctx.real(f"h{i}{i}", positive=True)
        if ctx.mode == "conc" and not Hm[i, i] > 0:
            Hm[i, i] = 1.0
    if cell == "tri":
        for i in range(d):
            for j in range(i):
                Hm[i, j] = ctx.real(f"h{i}{j}")
    return Hm


def ref_frac(r, Hm, d):
    """fractional coordinates f with r = f . H for a lower-triangular H (back substitution; independent of inv)"""
    f = [None] * d
    for k in reversed(range(d)):
        acc = r[k]
        for j in range(k + 1, d):
            acc = acc - f[j] * Hm[j, k]
        f[k] = acc / Hm[k, k]
    return f


def h_half(ctx, d, cell, n, mask, vec=False):
    ctx.covers(*FUNCS)
    pbc = ctx.repo("PyMatterSim.utils.pbc")
    Hm = make_cell(ctx, d, cell)
    r = ctx.array("r", (d,) if vec else (n, d))
    ppp = np.array(mask)
    out = pbc.remove_pbc(r, Hm, ppp)
    ctx.output("out", out)
    rows = [r] if vec else [r[i] for i in range(n)]
    outs = [out[0]] if vec else [out[i] for i in range(n)]
    half = Fraction(1, 2) if ctx.mode == "sym" else 0.5
    for i, (ri, oi) in enumerate(zip(rows, outs)):
        f = ref_frac(ri, Hm, d)
        g = ref_frac(oi, Hm, d)
        for k in range(d):
            if mask[k]:
                ctx.oblige(f"half[{i},{k}]", O.And(O.le(g[k], half), O.ge(g[k], -half)))
                # lattice translation: g_k = f_k - rint(f_k) with rint applied to the true fractional coordinate
                if ctx.mode == "sym":
                    rk = ctx.find_round("rint", f[k])
                    ctx.oblige(f"rounds_true_fraction[{i},{k}]", rk is not None)
                    if rk is not None:
                        ctx.oblige(f"lattice[{i},{k}]", O.eq(g[k], f[k] - rk))
                else:
                    ctx.oblige(f"lattice[{i},{k}]", O.eq(g[k], f[k] - O.rint(f[k]), atol=1e-7))
            else:
                ctx.oblige(f"keep[{i},{k}]", O.eq(g[k], f[k]))


def h_shift(ctx, d, cell, mask):
    """invariance under integer lattice shifts on periodic axes (away from ties) and idempotence"""
    ctx.covers(*FUNCS)
    pbc = ctx.repo("PyMatterSim.utils.pbc")
    Hm = make_cell(ctx, d, cell)
    r = ctx.array("r", (1, d))
    ppp = np.array(mask)
    ks = [ctx.integer(f"k{j}", lo=-3, hi=3) if mask[j] else 0 for j in range(d)]
    out1 = pbc.remove_pbc(r, Hm, ppp)
    half = Fraction(1, 2) if ctx.mode == "sym" else 0.5
    f = ref_frac(r[0], Hm, d)
    g = ref_frac(out1[0], Hm, d)
    # away from exact half-cell ties on periodic axes
    for k in range(d):
        if mask[k]:
            if ctx.mode == "sym":
                ctx.assume(O.And(O.Not(O.eq(g[k], half)), O.Not(O.eq(g[k], -half))))
            else:
                ctx.assume(abs(abs(g[k]) - 0.5) > 1e-6)
    shifted = r.copy()
    for j in range(d):
        for a in range(d):
            shifted[0, a] = shifted[0, a] + ks[j] * Hm[j, a]
    out2 = pbc.remove_pbc(shifted, Hm, ppp)
    ctx.output("out1", out1)
    ctx.output("out2", out2)
    for a in range(d):
        ctx.oblige(f"shift_invariant[{a}]", O.eq(out2[0, a], out1[0, a], atol=1e-7))
    out3 = pbc.remove_pbc(out1, Hm, ppp)
    for a in range(d):
        ctx.oblige(f"idempotent[{a}]", O.eq(out3[0, a], out1[0, a], atol=1e-7))


def h_shortest(ctx, d, mask):
    """orthogonal cells: the result is the shortest periodic image (per axis k in Z, k = 0 or |k| >= 1)"""
    ctx.covers(*FUNCS)
    pbc = ctx.repo("PyMatterSim.utils.pbc")
    Hm = make_cell(ctx, d, "ortho")
    r = ctx.array("r", (1, d))
    out = pbc.remove_pbc(r, Hm, np.array(mask))
    ctx.output("out", out)
    tot_a = 0
    tot_b = 0
    for a in range(d):
        if not mask[a]:
            continue
        k = ctx.real(f"k{a}")
        if ctx.mode == "sym":
            ctx.assume(O.Or(O.eq(k, 0), O.ge(k, 1), O.le(k, -1)))
        else:
            k = float(round(k))
        img = out[0, a] + k * Hm[a, a]
        ctx.oblige(f"axis_shortest[{a}]", O.le(out[0, a] * out[0, a], img * img))
        tot_a = tot_a + out[0, a] * out[0, a]
        tot_b = tot_b + img * img
    ctx.oblige("shortest_image", O.le(tot_a, tot_b))


def h_history(ctx, d, order):
    """the result depends on the arguments of the call only: calls with cells that share their edge lengths but differ in
    tilt (orthogonal box, then the sheared box of the same size, ...) are interleaved and each answer is held against the
    half-cell / lattice-translation conditions of *its own* cell; a repeated call returns the same vector"""
    ctx.covers(*FUNCS)
    pbc = ctx.repo("PyMatterSim.utils.pbc")
    A = make_cell(ctx, d, "ortho")
    B = make_cell(ctx, d, "tri")          # same symbols on the diagonal, free tilts
    r = ctx.array("r", (1, d))
    ppp = np.array([1] * d)
    half = Fraction(1, 2) if ctx.mode == "sym" else 0.5
    outs = {}
    for step, which in enumerate(order):
        Hm = A if which == "A" else B
        out = pbc.remove_pbc(r, Hm, ppp)
        ctx.output(f"out{step}", out)
        f = ref_frac(r[0], Hm, d)
        g = ref_frac(out[0], Hm, d)
        for k in range(d):
            ctx.oblige(f"step {step} (cell {which}) half[{k}]", O.And(O.le(g[k], half), O.ge(g[k], -half)))
            if ctx.mode == "sym":
                rk = ctx.find_round("rint", f[k])
                ctx.oblige(f"step {step} (cell {which}) rounds_true_fraction[{k}]", rk is not None)
                if rk is not None:
                    ctx.oblige(f"step {step} (cell {which}) lattice[{k}]", O.eq(g[k], f[k] - rk))
            else:
                ctx.assume(abs(abs(f[k] - O.rint(f[k])) - 0.5) > 1e-6)
                ctx.oblige(f"step {step} (cell {which}) lattice[{k}]", O.eq(g[k], f[k] - O.rint(f[k]), atol=1e-7))
        if which in outs:
            for a in range(d):
                ctx.oblige(f"step {step}: same answer as the earlier call with cell {which} [{a}]", O.eq(out[0, a], outs[which][0, a], atol=1e-9))
        outs[which] = out


def _masks(d):
    return [m for m in product((0, 1), repeat=d)]


def cfg_half(tier, seed):
    out = []
    for d in (2, 3):
        for cell in ("ortho", "tri"):
            for mask in _masks(d):
                out.append(dict(d=d, cell=cell, n=2 if tier == "quick" else 3, mask=list(mask)))
            out.append(dict(d=d, cell=cell, n=1, mask=[1] * d, vec=True))
    return out


def cfg_shift(tier, seed):
    out = []
    for d in (2, 3):
        for cell in ("ortho", "tri"):
            ms = _masks(d) if tier == "thorough" else [tuple([1] * d), tuple([1] + [0] * (d - 1)), tuple([0] * (d - 1) + [1])]
            for mask in ms:
                if any(mask):
                    out.append(dict(d=d, cell=cell, mask=list(mask)))
    return out


def cfg_shortest(tier, seed):
    return [dict(d=d, mask=list(m)) for d in (2, 3) for m in _masks(d) if any(m)]


HARNESSES = [
    H("half_cell", h_half, cfg_half),
    H("shift_idempotent", h_shift, cfg_shift, rint_lemmas=("L1", "L2", "L3", "L4")),
    H("shortest_image", h_shortest, cfg_shortest),
    H("call_history", h_history, lambda tier, seed: [dict(d=d, order=list(o)) for d in (2, 3) for o in ("ABA", "BAB")]),
]
