"""C17 local order parameters (S2, tetrahedral, nematic, gyration) equal definitions (DESIGN C17)."""
import math
import os
from fractions import Fraction

import numpy as np

from symx import ops as O
from symx.run import H
from checks import common as C

FUNCS = ["PyMatterSim.static.pairentropy.S2.particle_s2", "PyMatterSim.static.pairentropy.s2_integral",
         "PyMatterSim.static.geometric.q8_tetrahedral", "PyMatterSim.static.nematic.NematicOrder.tensor",
         "PyMatterSim.static.shape.gyration_tensor", "PyMatterSim.utils.funcs.grid_gaussian"]
BOUNDS = {
    "quick": "S2: N=2 (K<=2), d in {2,3}, ndelta in {2,3}, symbolic positions, width matrix, bin width; tetrahedral: N=5 with all "
             "positions symbolic and the perfect tetrahedron with symbolic scale/origin; nematic: N=3 unit vectors on the circle, "
             "with/without a neighbour file, trace and eigenvalue variants; gyration: N<=4 in 2D, N=3 in 3D, all coordinates symbolic",
    "thorough": "as quick plus S2 with N=3, tetrahedral N=6 (two particles concrete), gyration N=4 in 3D",
}
STUBS = ["exp / log -> one symbol per distinct argument (so the check is about bins, shell norms, prefactor, trapezoid weights, "
         "width selection and the r < r_max filter)", "np.linalg.eig -> 2x2 closed form; 3x3: eigenvalue symbols constrained by "
         "Vieta's relations (LAPACK in replays)", "np.save -> recorder"]
ASSUMPTIONS = ["floats modelled as reals", "particles distinct", "tetrahedral order with more than four candidates: pairwise different distances from the centre (no tie for the 4th place)", "gyration radius != 1 (fractal dimension defined)"]


def _gauss(ctx, x, sigma):
    if ctx.mode == "sym":
        from symx import scalar as S_
        return (-(x * x) / (2 * sigma * sigma)).exp() / S_.sqrt(2 * sigma * sigma * O.pi(ctx))
    return math.exp(-x * x / (2 * sigma * sigma)) / math.sqrt(2 * sigma * sigma * math.pi)


def h_s2(ctx, d, N, types, ndelta, ppp, cell, F=1, all_inside=False):
    """`types` is one list (used for every frame) or one list per frame (per-id types may change between frames, e.g. swap
    Monte Carlo with constant composition): every frame must be evaluated with its own types"""
    ctx.covers(FUNCS[0], FUNCS[1], FUNCS[5])
    pe = ctx.repo("PyMatterSim.static.pairentropy")
    ru = ctx.repo("PyMatterSim.reader.reader_utils")
    sym = ctx.mode == "sym"
    rows = C.make_cell(ctx, d, cell)
    types_f = types if isinstance(types[0], list) else [types] * F
    poss = [[[ctx.real(f"p{f}_{i}_{a}" if F > 1 else f"p{i}_{a}") for a in range(d)] for i in range(N)] for f in range(F)]
    snaps = [C.snapshot(ctx, ru, f, types_f[f], C.farr(ctx, poss[f]), rows) for f in range(F)]
    S = ru.Snapshots(nsnapshots=F, snapshots=snaps)
    K = max(max(t) for t in types_f)
    sg = [[ctx.real(f"w{min(a, b)}{max(a, b)}", positive=True) for b in range(K)] for a in range(K)]
    delta = ctx.real("delta", positive=True)
    pi_ = O.pi(ctx)
    V = 1
    for a in range(d):
        V = V * rows[a][a]
    rho = N / V
    bins = [(k + Fraction(1, 2)) * delta if sym else (k + 0.5) * delta for k in range(ndelta)]
    rmax = bins[-1]
    Ds = []
    for f in range(F):
        D = {}
        for i in range(N):
            for j in range(N):
                if i != j:
                    v = C.min_image(ctx, [poss[f][j][a] - poss[f][i][a] for a in range(d)], rows, ppp)
                    D[(i, j)] = O.sqrt(C.norm2(v))
                    if i < j:
                        ctx.assume(O.gt(C.norm2(v), 0) if sym else C.norm2(v) > 1e-12)
                        if all_inside:      # every pair within the integration range (no fork on the r < r_max filter)
                            ctx.assume(O.lt(C.norm2(v), rmax * rmax) if sym else C.norm2(v) < rmax * rmax)
        Ds.append(D)
    obj = pe.S2(S, sigmas=C.farr(ctx, sg), ppp=np.array(ppp), rdelta=delta, ndelta=ndelta)
    res = obj.particle_s2()
    ctx.output("s2", res)
    ctx.oblige("shape", tuple(res.shape) == (F, N))
    for f in range(F):
        D, tys = Ds[f], types_f[f]
        for i in range(N):
            g = []
            for k in range(ndelta):
                tot = 0
                for j in range(N):
                    if j == i:
                        continue
                    inside = bool(O.lt(D[(i, j)], rmax))
                    if inside:
                        tot = tot + _gauss(ctx, bins[k] - D[(i, j)], sg[tys[i] - 1][tys[j] - 1])
                norm = (2 * bins[k] * rho * pi_) if d == 2 else (4 * bins[k] * bins[k] * rho * pi_)
                g.append(tot / norm)
            if any(isinstance(x, int) and x == 0 for x in g):
                continue          # no neighbour within range: g = 0 and g ln g is 0*log 0 (outside the claim)
            if not sym and any((not (x > 1e-300)) or not math.isfinite(x) for x in g):
                ctx.assume(False)      # underflow of the Gaussian: g ln g is 0*(-inf) in floating point, outside the real-number claim
            ys = []
            for k in range(ndelta):
                lg = O.log(g[k])
                ys.append((g[k] * lg - g[k] + 1) * bins[k] ** (d - 1))
            integ = 0
            for k in range(ndelta - 1):
                integ = integ + (bins[k + 1] - bins[k]) * (ys[k] + ys[k + 1]) / 2
            ctx.oblige(f"S2[{f},{i}]" if F > 1 else f"S2[{i}]", O.eq(res[f, i], -(d - 1) * pi_ * rho * integ, rtol=1e-6, atol=1e-9))


def h_tetra(ctx, N, kind, fixed=0, symcoords=3, cell=None):
    ctx.covers(FUNCS[2])
    ge = ctx.repo("PyMatterSim.static.geometric")
    ru = ctx.repo("PyMatterSim.reader.reader_utils")
    sym = ctx.mode == "sym"
    rows = [[C.const(ctx, 50) if a == b else 0 for b in range(3)] for a in range(3)]
    ppp = [0, 0, 0]
    if cell is not None:          # periodic (possibly triclinic) cell: bonds are minimum-image vectors
        rows = C.make_cell(ctx, 3, cell)
        ppp = [1, 1, 1]
    if kind == "perfect":
        s = ctx.real("scale", positive=True)
        if not sym and not s > 0:
            s = 1.0
        o = [ctx.real(f"o{a}") for a in range(3)]
        verts = [(1, 1, 1), (1, -1, -1), (-1, 1, -1), (-1, -1, 1)]
        pos = [list(o)] + [[o[a] + s * v[a] for a in range(3)] for v in verts]
    else:
        fixed_pos = [["1/3", "1/5", "1/7"], ["-2/5", "3/4", "1/2"], ["9/10", "-1/3", "-3/5"], ["-1/7", "-6/5", "4/5"],
                     ["5/4", "7/6", "-1/9"], ["-8/7", "1/11", "6/5"]]
        pos = [[(C.const(ctx, fixed_pos[i][a]) if (i < fixed or a >= symcoords) else ctx.real(f"p{i}_{a}")) for a in range(3)]
               for i in range(N)]
        if cell is not None:
            # periodic run: the free coordinates range over one unit (keeps the number of image combinations, i.e. paths, small)
            for i in range(fixed, N):
                for a in range(min(symcoords, 3)):
                    x = pos[i][a]
                    ctx.assume(O.And(O.ge(x, -Fraction(1, 2)), O.le(x, Fraction(1, 2))) if sym else (-0.5 <= x <= 0.5))
    N = len(pos)
    D2, BV = {}, {}
    for i in range(N):
        for j in range(N):
            if i != j:
                BV[(i, j)] = C.min_image(ctx, [pos[j][a] - pos[i][a] for a in range(3)], rows, ppp)
    for i in range(N):
        for j in range(i + 1, N):
            D2[(i, j)] = D2[(j, i)] = C.norm2(BV[(i, j)])
            ctx.assume(O.gt(D2[(i, j)], 0) if sym else D2[(i, j)] > 1e-12)
    snap = C.snapshot(ctx, ru, 0, [1] * N, C.farr(ctx, pos), rows)
    S = ru.Snapshots(nsnapshots=1, snapshots=[snap])
    res = ge.q8_tetrahedral(S, ppp=np.array(ppp))
    ctx.output("q", res)
    ctx.oblige("shape", tuple(res.shape) == (1, N))
    centres = [0] if kind == "perfect" else range(N)
    for i in centres:
        others = [j for j in range(N) if j != i]
        if len(others) > 4:
            # which particles are "the four nearest" is undefined when the 4th and 5th distances coincide: general position
            for x in range(len(others)):
                for y in range(x + 1, len(others)):
                    e = O.eq(D2[(i, others[x])], D2[(i, others[y])])
                    ctx.assume(O.Not(e) if sym else abs(D2[(i, others[x])] - D2[(i, others[y])]) > 1e-9)
            # the four nearest on this path: decided through the cache of the code's own comparisons
            order = sorted(others, key=lambda j: 0)
            nearest = []
            rest = list(others)
            for _ in range(4):
                best = rest[0]
                for j in rest[1:]:
                    if bool(O.lt(D2[(i, j)], D2[(i, best)])):
                        best = j
                nearest.append(best)
                rest.remove(best)
            for j in nearest:
                for k in rest:
                    ctx.oblige(f"nearest four[{i}]: {j} not farther than {k}", O.le(D2[(i, j)], D2[(i, k)]))
        else:
            nearest = others
        tot = 0
        for a in range(4):
            for b in range(a + 1, 4):
                j, k = nearest[a], nearest[b]
                dot = sum(BV[(i, j)][c] * BV[(i, k)][c] for c in range(3))
                cs = dot / (O.sqrt(D2[(i, j)]) * O.sqrt(D2[(i, k)]))
                third = Fraction(1, 3) if sym else 1.0 / 3
                tot = tot + (cs + third) ** 2
        want = 1 - (Fraction(3, 32) if sym else 3.0 / 32) * tot
        ctx.oblige(f"q_tetra[{i}]", O.eq(res[0, i], want))
        if kind == "perfect":
            ctx.oblige("perfect tetrahedron: q = 1", O.eq(res[0, i], 1))


def h_nematic(ctx, N, F, topo, eig, topo2=None):
    """topo2: after the first call the neighbour file is rewritten (same path) with this topology and the SAME object is asked
    again - the tensor must be averaged over the list that is given now"""
    ctx.covers(FUNCS[3], "PyMatterSim.utils.coarse_graining.spatial_average")
    ne = ctx.repo("PyMatterSim.static.nematic")
    ru = ctx.repo("PyMatterSim.reader.reader_utils")
    sym = ctx.mode == "sym"
    rows = [[1, 0], [0, 1]]
    us, snaps = [], []
    for f in range(F):
        row = []
        for i in range(N):
            ang = ctx.angle(f"th{f}_{i}")
            c, s = O.cos_sin(ang)
            row.append([c, s])
        us.append(row)
        snaps.append(C.snapshot(ctx, ru, f, [1] * N, C.farr(ctx, row), rows))
    S = ru.Snapshots(nsnapshots=F, snapshots=snaps)
    nb = ""
    if topo is not None:
        nb = os.path.join(ctx.tmpdir(), "nb.dat")
        with open(nb, "w") as fh:
            for f in range(F):
                fh.write("id cn neighborlist\n")
                for i, lst in enumerate(topo):
                    fh.write(" ".join([str(i + 1), str(len(lst))] + [str(j + 1) for j in lst]) + "\n")
    out = os.path.join(ctx.tmpdir(), "nem")
    obj = ne.NematicOrder(S)
    res = obj.tensor(ndim=2, neighborfile=nb, eigvals=eig, outputfile=out)
    if topo2 is not None:
        with open(nb, "w") as fh:
            for f in range(F):
                fh.write("id cn neighborlist\n")
                for i, lst in enumerate(topo2):
                    fh.write(" ".join([str(i + 1), str(len(lst))] + [str(j + 1) for j in lst]) + "\n")
        res = obj.tensor(ndim=2, neighborfile=nb, eigvals=eig, outputfile=out)
        topo = topo2
    ctx.output("order", res)
    Q = obj.QIJ
    half = Fraction(1, 2) if sym else 0.5
    for f in range(F):
        raw = [[[(2 * us[f][i][x] * us[f][i][y] - (1 if x == y else 0)) * half for y in range(2)] for x in range(2)] for i in range(N)]
        for i in range(N):
            grp = [i] + (topo[i] if topo is not None else [])
            for x in range(2):
                for y in range(2):
                    want = sum(raw[j][x][y] for j in grp) / len(grp)
                    ctx.oblige(f"Q[{f},{i},{x},{y}]", O.eq(Q[f, i, x, y], want))
            q00 = sum(raw[j][0][0] for j in grp) / len(grp)
            q01 = sum(raw[j][0][1] for j in grp) / len(grp)
            q11 = sum(raw[j][1][1] for j in grp) / len(grp)
            tr2 = q00 * q00 + 2 * q01 * q01 + q11 * q11
            # scalar order: sqrt(d/(d-1) tr Q^2) = 2 * largest eigenvalue in 2D
            val = res[f, i]
            if eig:
                ctx.oblige(f"order[{f},{i}] = 2 lambda_max = 2 sqrt(Q00^2 + Q01^2)", O.eq(val, 2 * O.sqrt(q00 * q00 + q01 * q01), atol=1e-7))
            else:
                ctx.oblige(f"order[{f},{i}] >= 0", O.ge(val, 0, 1e-9))
            ctx.oblige(f"order[{f},{i}]^2 = 2 tr Q^2", O.eq(val * val, 2 * tr2, atol=1e-7))


def h_gyr(ctx, N, d):
    ctx.covers(FUNCS[4])
    sh = ctx.repo("PyMatterSim.static.shape")
    sym = ctx.mode == "sym"
    pts = ctx.array("x", (N, d))
    orig = [[pts[i, a] for a in range(d)] for i in range(N)]
    com = [sum(orig[i][a] for i in range(N)) / N for a in range(d)]
    Sref = [[sum((orig[i][a] - com[a]) * (orig[i][b] - com[b]) for i in range(N)) / N for b in range(d)] for a in range(d)]
    tr = sum(Sref[a][a] for a in range(d))
    ctx.assume(O.gt(tr, 0) if sym else tr > 1e-12)
    ctx.assume(O.Not(O.eq(tr, 1)) if sym else abs(tr - 1) > 1e-9)
    if sym:
        from symx import npf
        npf.EIG_LOG.clear()
    res = sh.gyration_tensor(pts if getattr(ctx, "frame", False) else pts.copy())
    ctx.output("descriptors", list(res))
    ctx.oblige("count", len(res) == (5 if d == 3 else 3))
    rg = res[0]
    ctx.oblige("Rg >= 0", O.ge(rg, 0))
    ctx.oblige("Rg^2 = trace of the centred second-moment tensor", O.eq(rg * rg, tr, rtol=1e-6))
    if sym:
        from symx import npf
        M = npf.EIG_LOG[-1] if npf.EIG_LOG else None
        ctx.oblige("eigenvalues taken of one matrix", M is not None)
        if M is not None:
            for a in range(d):
                for b in range(d):
                    ctx.oblige(f"tensor[{a},{b}] = centred second moment", O.eq(M[a, b], Sref[a][b]))
    if d == 2:
        det = Sref[0][0] * Sref[1][1] - Sref[0][1] * Sref[1][0]
        ac = res[1]
        ctx.oblige("acylindricity >= 0", O.ge(ac, 0, 1e-9))
        ctx.oblige("acylindricity^2 = (l1 - l0)^2 = tr^2 - 4 det", O.eq(ac * ac, tr * tr - 4 * det, rtol=1e-6, atol=1e-9))
        fd = res[2]
    else:
        fd = res[4]
        if not sym:
            lam = np.sort(np.linalg.eigvalsh(np.array(Sref, dtype=float)))
            b = 1.5 * lam[2] - 0.5 * lam.sum()
            c = lam[1] - lam[0]
            ctx.oblige("asphericity", O.eq(res[1], b, rtol=1e-6, atol=1e-9))
            ctx.oblige("acylindricity", O.eq(res[2], c, rtol=1e-6, atol=1e-9))
            ctx.oblige("shape anisotropy", O.eq(res[3], (b * b + 0.75 * c * c) / float(tr) ** 2, rtol=1e-6, atol=1e-9))
        else:
            b, c, k2 = res[1], res[2], res[3]
            # with l0 <= l1 <= l2 the Vieta-constrained eigenvalue symbols of the checked tensor:
            # b = 1.5 l2 - 0.5 tr, c = l1 - l0, kappa^2 = (b^2 + 0.75 c^2)/Rg^4
            from symx import scalar as S_
            eig = [S_.SR.atom(a.idx) for a in S_.REG.atoms if a.kind == "eig"][-3:]
            ctx.oblige("three eigenvalue symbols", len(eig) == 3)
            if len(eig) == 3:
                l0, l1, l2 = eig
                order = [O.le(l0, l1), O.le(l1, l2)]        # facts of the eigenvalue symbols (their defining relations)
                ctx.oblige("asphericity = 1.5 l_max - 0.5 tr", O.eq(b, Fraction(3, 2) * l2 - Fraction(1, 2) * (l0 + l1 + l2)), using=order)
                ctx.oblige("acylindricity = l_mid - l_min", O.eq(c, l1 - l0), using=order)
                ctx.oblige("shape anisotropy = (b^2 + 3/4 c^2)/Rg^4", O.eq(k2 * (rg ** 4), b * b + Fraction(3, 4) * c * c))
    # fractal dimension = log10 N / log10 Rg
    if sym:
        from symx import scalar as S_
        lgr = S_.fn_atom("log", S_.lift_strict(rg))
        ctx.oblige("fractal dimension", O.eq(fd * lgr, S_.fn_atom("log", S_.SR.const(N))))
    else:
        ctx.oblige("fractal dimension", O.eq(fd, math.log10(N) / math.log10(float(rg)), rtol=1e-6))


def cfg_s2(tier, seed):
    out = [dict(d=2, N=2, types=[1, 2], ndelta=2, ppp=[0, 0], cell="o"), dict(d=3, N=2, types=[1, 1], ndelta=3, ppp=[0, 0, 0], cell="o"),
           dict(d=2, N=2, types=[2, 1], ndelta=3, ppp=[1, 1], cell="o"),
           # two frames, per-id types exchanged between the frames (same composition)
           dict(d=2, N=3, F=2, types=[[1, 1, 2], [1, 2, 1]], ndelta=2, ppp=[0, 0], cell="o", all_inside=True)]
    if tier == "thorough":
        out.append(dict(d=2, N=3, types=[1, 2, 1], ndelta=2, ppp=[0, 0], cell="o"))
        out.append(dict(d=3, N=2, types=[1, 2], ndelta=3, ppp=[1, 1, 1], cell="t-"))
    return out


def cfg_tetra(tier, seed):
    out = [dict(N=5, kind="perfect"), dict(N=5, kind="general", fixed=4, symcoords=1),
           dict(N=5, kind="general", fixed=4, symcoords=1, cell="t-")]
    if tier == "thorough":
        out.append(dict(N=5, kind="general", fixed=4, symcoords=2, cell="t+"))
        out.append(dict(N=5, kind="general", fixed=4))
        out.append(dict(N=6, kind="general", fixed=5))
        out.append(dict(N=5, kind="general", fixed=3, symcoords=2))     # two free particles, two free coordinates each
    return out


def cfg_nem(tier, seed):
    out = []
    for eig in (False, True):
        out.append(dict(N=3, F=1, topo=None, eig=eig))
        out.append(dict(N=3, F=2 if not eig else 1, topo=[[1, 2], [0], [1]], eig=eig))
    out.append(dict(N=3, F=1, topo=[[1], [2], [0]], eig=False, topo2=[[1, 2], [0, 2], [0]]))     # list regenerated under the same name
    return out


def cfg_gyr(tier, seed):
    out = [dict(N=2, d=2), dict(N=3, d=2), dict(N=4, d=2), dict(N=3, d=3)]
    if tier == "thorough":
        out.append(dict(N=4, d=3))
    return out


HARNESSES = [H("pair_entropy", h_s2, cfg_s2, timeout_ms=30000), H("tetrahedral", h_tetra, cfg_tetra, timeout_ms=30000, rint_pin=True),
             H("nematic", h_nematic, cfg_nem, timeout_ms=30000), H("gyration", h_gyr, cfg_gyr, timeout_ms=30000, abstract=True)]
