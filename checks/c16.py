"""C16 coarse-graining returns the stated neighbour, Gaussian-grid and window averages (DESIGN C16)."""
import ast
import inspect
import os
import time
from fractions import Fraction
from itertools import product

import numpy as np

from symx import ops as O
from symx.run import H
from checks import common as C

FUNCS = ["PyMatterSim.utils.coarse_graining.spatial_average", "PyMatterSim.utils.coarse_graining.gaussian_blurring",
         "PyMatterSim.utils.coarse_graining.time_average", "PyMatterSim.utils.funcs.grid_gaussian"]
BOUNDS = {
    "quick": "spatial average: rank 0..2 properties, N=3, F=2, concrete neighbour topologies, all values symbolic; Gaussian "
             "blurring: 2D grids with 1..3 points per axis (unequal axes included), 3D grids 2x2x3 / 1x3x2, symbolic box bounds, "
             "sigma, cut-off, one symbolic + one concrete particle, rank 0..1; window average: F<=4 frames, window 1..3, all "
             "values symbolic; flat-index and middle-index expressions taken from the AST and decided for all grid shapes "
             "n<=64 per axis and all windows/offsets <= 10^6",
    "thorough": "as quick plus rank 2 blurring, periodic concrete cells and F=5",
}
STUBS = ["exp(-r^2/2s^2) -> one positive symbol per distinct argument (structural cache)",
         "int(period/interval) concretised by forking (float effects such as int(0.006/0.002)==2 are outside the claim)"]
ASSUMPTIONS = ["floats modelled as reals", "window length >= 1 frame", "sigma > 0, cut-off > 0"]


# ---------------------------------------------------------------- spatial average
def h_spatial(ctx, rank, N, F, topo):
    ctx.covers(FUNCS[0])
    cg = ctx.repo("PyMatterSim.utils.coarse_graining")
    shape = {0: (F, N), 1: (F, N, 2), 2: (F, N, 2, 2)}[rank]
    prop = ctx.array("p", shape)
    path = os.path.join(ctx.tmpdir(), "nb.dat")
    with open(path, "w") as fh:
        for f in range(F):
            fh.write("id cn neighborlist\n")
            for i, nb in enumerate(topo[f]):
                fh.write(" ".join([str(i + 1), str(len(nb))] + [str(j + 1) for j in nb]) + "\n")
    before = prop.copy()
    res = cg.spatial_average(prop, path, Nmax=5)
    ctx.output("cg", res)
    ctx.oblige("shape", tuple(res.shape) == shape)
    sub = list(product(range(2), repeat=rank))
    for f in range(F):
        for i in range(N):
            nb = topo[f][i]
            for s in sub:
                want = (before[(f, i) + s] + sum(before[(f, j) + s] for j in nb)) / (1 + len(nb))
                ctx.oblige(f"mean over self+neighbours[{f},{i},{s}]", O.eq(res[(f, i) + s], want))
                ctx.oblige(f"input untouched[{f},{i},{s}]", O.eq(prop[(f, i) + s], before[(f, i) + s]))


# ---------------------------------------------------------------- gaussian blurring
def h_blur(ctx, d, ngrids, rank, F=1, N=2, free=3, moving=False, ppp=None):
    ctx.covers(FUNCS[1], FUNCS[3])
    cg = ctx.repo("PyMatterSim.utils.coarse_graining")
    ru = ctx.repo("PyMatterSim.reader.reader_utils")
    sym = ctx.mode == "sym"
    lo = [ctx.real(f"lo{a}") for a in range(d)]
    L = [ctx.real(f"L{a}", positive=True) for a in range(d)]
    if not sym:
        L = [x if x > 0 else 1.0 for x in L]
    rows = [[L[a] if a == b else 0 for b in range(d)] for a in range(d)]
    sigma = ctx.real("sigma", positive=True)
    cut = ctx.real("cut", positive=True)
    pi_ = O.pi(ctx)
    snaps, poss = [], []
    lo0 = lo
    # moving=True: the box origin is different in every frame (shifted bounds, same edge lengths): each frame's grid must
    # span that frame's own bounds
    sh = [ctx.real(f"shift{a}") for a in range(d)] if moving else [0] * d
    lo_f = [[lo0[a] + f * sh[a] for a in range(d)] for f in range(F)]
    for f in range(F):
        lo = lo_f[f]
        prow = [[ctx.real(f"p{f}_{a}") for a in range(d)], [lo[a] + L[a] * C.const(ctx, Fraction(1, 3)) for a in range(d)]][:N]
        poss.append(prow)
        snaps.append(C.snapshot(ctx, ru, f, [1] * N, C.farr(ctx, prow), rows, lo=lo))
    S = ru.Snapshots(nsnapshots=F, snapshots=snaps)
    shape = {0: (F, N), 1: (F, N, d), 2: (F, N, d, d)}[rank]
    cond = ctx.array("A", shape)        # rank 2: a general (non-symmetric) tensor per particle
    G = int(np.prod(ngrids))
    def axes_of(f):
        lo = lo_f[f]
        return [[(lo[a] + (L[a] * Fraction(k, ngrids[a] - 1) if sym else L[a] * k / (ngrids[a] - 1))) if ngrids[a] > 1 else lo[a]
                 for k in range(ngrids[a])] for a in range(d)]
    # the cut-off test is left free for the first `free` grid points (one solver-decided fork per particle and point);
    # the remaining points are assumed inside the cut-off so that the number of paths stays bounded
    for f in range(F):
        axes0 = axes_of(f)
        for flat, idx in enumerate(product(*[range(n) for n in ngrids])):
            if flat >= free:
                for i in range(N):
                    r2 = C.norm2(C.min_image(ctx, [axes0[a][idx[a]] - poss[f][i][a] for a in range(d)], rows, ppp or [0] * d))
                    ctx.assume(O.lt(r2, cut * cut))
    gpos, gval = cg.gaussian_blurring(S, cond, np.array(ngrids), sigma=sigma, ppp=np.array(ppp or [0] * d), gaussian_cut=cut)
    ctx.oblige("grid size", tuple(gpos.shape) == (F, G, d))
    ctx.output("gpos", gpos)
    ctx.output("gval", gval)
    for f in range(F):
        axes = axes_of(f)
        for flat, idx in enumerate(product(*[range(n) for n in ngrids])):        # x slowest
            pt = [axes[a][idx[a]] for a in range(d)]
            for a in range(d):
                ctx.oblige(f"grid point[{f},{flat},{a}]", O.eq(gpos[f, flat, a], pt[a]))
            comps = [()] if rank == 0 else ([(c,) for c in range(d)] if rank == 1 else [(c, e) for c in range(d) for e in range(d)])
            for cc in comps:
                tot = 0
                for i in range(N):
                    r2 = C.norm2(C.min_image(ctx, [pt[a] - poss[f][i][a] for a in range(d)], rows, ppp or [0] * d))
                    inside = O.lt(r2, cut * cut)
                    if sym:
                        from symx import scalar as S_
                        g = (-(r2) / (2 * sigma * sigma)).exp() / S_.sqrt(2 * sigma * sigma * pi_)
                        w = O.If(inside, 1, 0) if not isinstance(inside, bool) else (1 if inside else 0)
                    else:
                        import math
                        g = math.exp(-r2 / (2 * sigma * sigma)) / math.sqrt(2 * sigma * sigma * math.pi)
                        w = 1 if inside else 0
                    tot = tot + w * g * cond[(f, i) + cc]
                ctx.oblige(f"grid value[{f},{flat},{cc}]", O.eq(gval[(f, flat) + cc], tot))


# ---------------------------------------------------------------- time average
def h_window(ctx, F, N, Wmax, cplx):
    ctx.covers(FUNCS[2])
    cg = ctx.repo("PyMatterSim.utils.coarse_graining")
    ru = ctx.repo("PyMatterSim.reader.reader_utils")
    sym = ctx.mode == "sym"
    steps = [50 * (f + 2) for f in range(F)]
    rows = [[1, 0], [0, 1]]
    snaps = [C.snapshot(ctx, ru, steps[f], [1] * N, C.farr(ctx, [[0, 0]] * N), rows) for f in range(F)]
    S = ru.Snapshots(nsnapshots=F, snapshots=snaps)
    re = ctx.array("a", (F, N))
    im = ctx.array("b", (F, N)) if cplx else None
    if cplx and sym:
        from symx.scalar import SC
        from symx.npf import SArr
        prop = np.empty((F, N), dtype=object)
        for idx in np.ndindex(F, N):
            prop[idx] = SC(re[idx], im[idx])
        prop = prop.view(SArr)
    elif cplx:
        prop = re + 1j * im
    else:
        prop = re
    dt = ctx.real("dt", positive=True)
    period = ctx.real("period", positive=True)
    interval = (steps[1] - steps[0]) * dt
    ctx.assume(O.And(O.ge(period, interval), O.lt(period, (Wmax + 1) * interval)))
    res, mid = cg.time_average(S, prop, time_period=period, dt=dt)
    W = F - len(res)
    ctx.oblige("window length in range", 1 <= W <= Wmax)
    # W = floor(period / interval)
    ctx.oblige("W = floor(period/interval)", O.And(O.ge(period, W * interval), O.lt(period, (W + 1) * interval)))
    ctx.output("avg", res)
    ctx.oblige("rows", len(res) == F - W and len(mid) == F - W)
    for n in range(len(res)):
        for i in range(N):
            wr = sum(re[n + k, i] for k in range(W)) / W
            got_re, got_im = O.re_im(res[n, i])
            ctx.oblige(f"window mean[{n},{i}].re", O.eq(got_re, wr))
            ctx.oblige(f"window mean[{n},{i}].im", O.eq(got_im, (sum(im[n + k, i] for k in range(W)) / W) if cplx else 0))
        centre_lo, centre_hi = n + (W - 1) // 2, n + W // 2
        ctx.oblige(f"central frame index[{n}]", int(mid[n]) in (centre_lo, centre_hi))


# ---------------------------------------------------------------- AST side queries (pure integer)
def _find_assign(func, target):
    src = inspect.getsource(func)
    tree = ast.parse(src)
    out = []
    for node in ast.walk(tree):
        if isinstance(node, ast.Assign) and len(node.targets) == 1 and isinstance(node.targets[0], ast.Name) and node.targets[0].id == target:
            out.append(node.value)
    return out


def _int_expr(node, env):
    import z3
    if isinstance(node, ast.BinOp):
        l, r = _int_expr(node.left, env), _int_expr(node.right, env)
        if isinstance(node.op, ast.Add):
            return l + r
        if isinstance(node.op, ast.Sub):
            return l - r
        if isinstance(node.op, ast.Mult):
            return l * r
        if isinstance(node.op, ast.FloorDiv):
            return l / r          # z3 Int division (operands non-negative here)
        raise ValueError("operator")
    if isinstance(node, ast.Name):
        return env[node.id]
    if isinstance(node, ast.Constant) and isinstance(node.value, int):
        return z3.IntVal(node.value)
    if isinstance(node, ast.Subscript) and isinstance(node.value, ast.Name) and isinstance(node.slice, ast.Constant):
        return env[f"{node.value.id}[{node.slice.value}]"]
    raise ValueError("expression shape not recognised: " + ast.dump(node))


def prelude(tier, seed):
    import importlib
    import z3
    cg = importlib.import_module("PyMatterSim.utils.coarse_graining")
    t0 = time.time()
    out = dict(name="index_expressions", obligations=0, discharged=0, undecided=0, solver_s=0.0, samples=[], violations=[],
               errors=[], functions=FUNCS[1:3], lemmas=[], wall_s=0.0)
    # ---- flat grid index
    try:
        exprs = _find_assign(cg.gaussian_blurring, "indice")
    except Exception as e:       # pragma: no cover
        exprs = []
        out["samples"].append(dict(note=f"pattern not found - skipped ({e!r})"))
    i, j, k = z3.Ints("i j k")
    n = [z3.Int(f"n{a}") for a in range(3)]
    env = {"i": i, "j": j, "k": k, "ngrids[0]": n[0], "ngrids[1]": n[1], "ngrids[2]": n[2]}
    for node in exprs:
        try:
            e = _int_expr(node, env)
        except ValueError as ex:
            out["samples"].append(dict(note=f"flat index: {ex} - skipped"))
            continue
        names = {x.id for x in ast.walk(node) if isinstance(x, ast.Name)}
        three = "k" in names
        ref = (i * n[1] + j) * n[2] + k if three else i * n[1] + j
        dom = [i >= 0, i < n[0], j >= 0, j < n[1], n[0] >= 1, n[0] <= 64, n[1] >= 1, n[1] <= 64]
        if three:
            dom += [k >= 0, k < n[2], n[2] >= 1, n[2] <= 64]
        s = z3.Solver()
        s.set("timeout", 60000)
        s.add(*dom)
        s.add(e != ref)
        r = s.check()
        out["obligations"] += 1
        label = f"flat index {'3D' if three else '2D'}: {ast.unparse(node)} == row-major (x slowest) for all shapes <= 64"
        if r == z3.unsat:
            out["discharged"] += 1
            out["samples"].append(dict(obligation=label, verdict="unsat"))
        elif r == z3.sat:
            m = s.model()
            wit = {str(v): m.eval(v, model_completion=True).as_long() for v in ([i, j] + ([k] if three else []) + n[:3 if three else 2])}
            out["violations"].append(dict(harness="index_expressions", config=dict(expr=ast.unparse(node)), obligation="flat grid index",
                                          replay=_write(f"C16_flat_index_{'3d' if three else '2d'}", dict(expression=ast.unparse(node), witness=wit,
                                                        note="grid shape for which the flat index differs from row-major order (collision / overrun)")),
                                          exception=None, failed=[str(wit)]))
        else:
            out["undecided"] += 1
    # ---- middle index of the averaging window
    try:
        src = inspect.getsource(cg.time_average)
        tree = ast.parse(src)
        calls = [c for c in ast.walk(tree) if isinstance(c, ast.Call) and getattr(c.func, "attr", "") == "append"]
        mids = [c.args[0] for c in calls if c.args]
    except Exception as e:       # pragma: no cover
        mids = []
    nn, W = z3.Ints("n W")
    for node in mids:
        txt = ast.unparse(node)
        val = None
        # recognised shapes: round(n + W / 2)  |  n + W // 2  |  n + (W - 1) // 2
        try:
            if isinstance(node, ast.Call) and getattr(node.func, "id", "") == "round":
                arg = node.args[0]
                # real-valued argument, Python round = half to even
                x = _real_expr(arg, {"n": z3.ToReal(nn), "time_nsnapshot": z3.ToReal(W)})
                rr = z3.Int("rr")
                half = z3.RealVal("1/2")
                dd = x - z3.ToReal(rr)
                defn = z3.And(dd <= half, -dd <= half, z3.Implies(z3.Or(dd == half, -dd == half), rr % 2 == 0))
                val, extra = rr, [defn]
            else:
                val, extra = _int_expr(node, {"n": nn, "time_nsnapshot": W}), []
        except ValueError as ex:
            out["samples"].append(dict(note=f"middle index: {ex} - skipped"))
            continue
        s = z3.Solver()
        s.set("timeout", 60000)
        s.add(nn >= 0, nn <= 10 ** 6, W >= 1, W <= 10 ** 6, *extra)
        lo_c, hi_c = nn + (W - 1) / 2, nn + W / 2
        s.add(z3.Not(z3.Or(val == lo_c, val == hi_c)))
        r = s.check()
        out["obligations"] += 1
        label = f"middle index {txt} is a central frame of the window n..n+W-1 for all n, W <= 10^6"
        if r == z3.unsat:
            out["discharged"] += 1
            out["samples"].append(dict(obligation=label, verdict="unsat"))
        elif r == z3.sat:
            m = s.model()
            wit = dict(n=m.eval(nn, model_completion=True).as_long(), W=m.eval(W, model_completion=True).as_long())
            out["violations"].append(dict(harness="index_expressions", config=dict(expr=txt), obligation="window middle index",
                                          replay=_write("C16_middle_index", dict(expression=txt, witness=wit)), exception=None, failed=[str(wit)]))
        else:
            out["undecided"] += 1
    out["solver_s"] = out["wall_s"] = time.time() - t0
    return [out]


def _real_expr(node, env):
    import z3
    if isinstance(node, ast.BinOp):
        l, r = _real_expr(node.left, env), _real_expr(node.right, env)
        if isinstance(node.op, ast.Add):
            return l + r
        if isinstance(node.op, ast.Sub):
            return l - r
        if isinstance(node.op, ast.Mult):
            return l * r
        if isinstance(node.op, ast.Div):
            return l / r
        raise ValueError("operator")
    if isinstance(node, ast.Name):
        return env[node.id]
    if isinstance(node, ast.Constant) and isinstance(node.value, (int, float)):
        return z3.RealVal(str(Fraction(node.value)))
    raise ValueError("expression shape not recognised: " + ast.dump(node))


def _write(name, doc):
    import json
    root = os.path.dirname(os.path.dirname(os.path.abspath(__file__)))
    os.makedirs(os.path.join(root, "replays"), exist_ok=True)
    p = os.path.join(root, "replays", name + ".json")
    doc = dict(doc, property="C16", harness="index_expressions")
    json.dump(doc, open(p, "w"), indent=1)
    return p


def cfg_spatial(tier, seed):
    topo = [[[1, 2], [0], []], [[2], [0, 2], [1]]]
    return [dict(rank=r, N=3, F=2, topo=topo) for r in (0, 1, 2)]


def cfg_blur(tier, seed):
    out = []
    # every (grid point, particle) pair forks on the cut-off test: two particles on the small grids, one on the larger ones
    for g, n in (([2, 3], 1), ([3, 2], 1), ([1, 3], 2), ([2, 2], 2), ([3, 1], 1)):
        out.append(dict(d=2, ngrids=g, rank=0, N=n))
    out.append(dict(d=2, ngrids=[2, 3], rank=1, N=1))
    out.append(dict(d=2, ngrids=[2, 1], rank=2, N=2, free=1))          # tensor property, not symmetric
    out.append(dict(d=3, ngrids=[2, 2, 3], rank=0, N=1))
    out.append(dict(d=3, ngrids=[1, 3, 2], rank=0, N=1))
    out.append(dict(d=2, ngrids=[2, 2], rank=0, F=2, N=1, free=1, moving=True))      # second frame with a shifted box origin
    out.append(dict(d=2, ngrids=[2, 2], rank=0, N=1, free=1, ppp=[1, 1]))               # periodic distances (minimum image)
    out.append(dict(d=2, ngrids=[2, 1], rank=1, N=1, free=1, ppp=[0, 1]))
    if tier == "thorough":
        out.append(dict(d=3, ngrids=[2, 3, 2], rank=1, N=1))
        out.append(dict(d=2, ngrids=[4, 2], rank=0, F=2, N=1))
        out.append(dict(d=2, ngrids=[2, 3], rank=0, N=2))
        out.append(dict(d=2, ngrids=[3, 3], rank=0, N=1))
    return out


def cfg_window(tier, seed):
    out = [dict(F=4, N=2, Wmax=3, cplx=False), dict(F=4, N=1, Wmax=3, cplx=True), dict(F=2, N=2, Wmax=1, cplx=False)]
    if tier == "thorough":
        out.append(dict(F=5, N=2, Wmax=4, cplx=False))
    return out


HARNESSES = [H("spatial_average", h_spatial, cfg_spatial), H("gaussian_blurring", h_blur, cfg_blur, timeout_ms=20000, max_paths=3000),
             H("time_average", h_window, cfg_window)]
