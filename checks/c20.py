"""C20 (partial): the Python side of the Voronoi wrappers, with the compiled tessellation replaced by an arbitrary one.

What the property says about the tessellation itself (symmetric neighbour relation, positive equal weights, volumes summing to
the box) is computed inside the compiled freud extension and is NOT claimed - symbolic execution stops at that boundary.
Claimed is what pymattersim's own code adds around it, for every tessellation the library could return:
  * convert_configuration centres every frame on its own box (any origin), pads z = 0 in 2D, one box per frame;
  * VolumeMatrix works on the *requested* frame, displaces exactly one coordinate of exactly one particle by +-deltar around
    the centred position, restores it, takes central differences of the returned volumes, fills the self term from translation
    invariance (every row sums to zero over each displaced coordinate) and normalises by the unperturbed volume.
The text format of the neighbour / weight / overall files (cal_neighbors: %d / %.6f of library output) has no real-valued
branching and is left to the repository's own tests; it is not claimed here.
"""
import os
from fractions import Fraction

import numpy as np

from symx import ops as O
from symx.run import H
from checks import common as C

FUNCS = ["PyMatterSim.neighbors.freud_neighbors.convert_configuration", "PyMatterSim.neighbors.freud_neighbors.VolumeMatrix"]
BOUNDS = {
    "quick": "N=3..4 particles, F<=2 frames, requested frame 0 and 1, d in {2,3}, box origin / lengths / positions / deltar symbolic, "
             "the volumes returned by the tessellation arbitrary positive symbols per call",
    "thorough": "as quick with N=5 and F=3",
}
STUBS = ["freud.box.Box.from_box -> records the box lengths; freud.locality.Voronoi().compute((box, points)).volumes -> records the "
         "points array it was called with and returns fresh positive symbols (symbolic run); the concrete replay calls the real library"]
ASSUMPTIONS = ["the tessellation itself (neighbour symmetry, weights, volume sum) is inside compiled freud and not claimed",
               "file formatting of cal_neighbors not claimed", "transform_matrix=False (the transformed matrix needs an N x N inverse)"]


class Stub:
    def __init__(self, ctx):
        self.ctx, self.calls, self.boxes = ctx, [], []
        stub = self

        class Box:
            @staticmethod
            def from_box(L, *a, **k):
                stub.boxes.append(L)
                return ("box", L)

        class _Res:
            def __init__(self, vols):
                self.volumes = vols

        class Voronoi:
            def compute(self, system, *a, **k):
                from symx.npf import sarr
                box, pts = system
                n = len(stub.calls)
                vols = [stub.ctx.real(f"V{n}_{i}", positive=True) for i in range(len(pts))]
                stub.calls.append((box, [[pts[i, a] for a in range(pts.shape[1])] for i in range(pts.shape[0])], vols))
                return _Res(sarr(vols))

        class _NS:
            pass
        self.box = _NS()
        self.box.Box = Box
        self.locality = _NS()
        self.locality.Voronoi = Voronoi


def h_volume(ctx, d, N, F, nconfig, centred):
    ctx.covers(*FUNCS)
    fn = ctx.repo("PyMatterSim.neighbors.freud_neighbors")
    ru = ctx.repo("PyMatterSim.reader.reader_utils")
    sym = ctx.mode == "sym"
    snaps, poss, los, Ls = [], [], [], []
    for f in range(F):
        L = [ctx.real(f"L{f}_{a}", positive=True) for a in range(d)]
        if not sym:
            L = [x if x > 0.5 else 3.0 + a for a, x in enumerate(L)]
        lo = [(-L[a] / 2) if centred else ctx.real(f"lo{f}_{a}") for a in range(d)]
        if not centred:
            tot = sum(2 * lo[a] + L[a] for a in range(d))
            ctx.assume(O.Not(O.eq(tot, 0)) if sym else abs(tot) > 1e-9)
        rows = [[L[a] if a == b else 0 for b in range(d)] for a in range(d)]
        pos = [[ctx.real(f"p{f}_{i}_{a}") for a in range(d)] for i in range(N)]
        if not sym:
            # keep the replay configuration inside its box and non-degenerate for the real tessellation
            base = [[0.31, 0.17, 0.73], [0.78, 0.52, 0.11], [0.12, 0.85, 0.42], [0.55, 0.33, 0.91], [0.93, 0.71, 0.58]]
            pos = [[lo[a] + L[a] * ((base[i][a] + 0.05 * np.tanh(pos[i][a])) % 1.0) for a in range(d)] for i in range(N)]
        snaps.append(C.snapshot(ctx, ru, f, [1] * N, C.farr(ctx, pos), rows, lo=lo))
        poss.append(pos)
        los.append(lo)
        Ls.append(L)
    S = ru.Snapshots(nsnapshots=F, snapshots=snaps)
    dr = ctx.real("deltar", positive=True)
    if not sym:
        dr = 0.01
    stub = None
    saved = None
    if sym:
        stub = Stub(ctx)
        saved = fn.__dict__.get("freud")
        fn.__dict__["freud"] = stub
    try:
        boxes, points = fn.convert_configuration(S)
        ctx.oblige("one box and one point set per frame", len(boxes) == F and len(points) == F)
        for f in range(F):
            pts = points[f]
            ctx.oblige(f"points[{f}] shape (N,3)", tuple(pts.shape) == (N, 3))
            if tuple(pts.shape) != (N, 3):
                continue
            for i in range(N):
                for a in range(3):
                    want = (poss[f][i][a] - (los[f][a] + Ls[f][a] / 2)) if a < d else 0
                    ctx.oblige(f"frame {f}: particle {i} coordinate {a} centred on the frame's own box", O.eq(pts[i, a], want))
        if sym:
            for f in range(F):
                for a in range(d):
                    ctx.oblige(f"box[{f}] built from the frame's lengths [{a}]", O.eq(stub.boxes[f][a], Ls[f][a]))
            stub.calls.clear()
        m = fn.VolumeMatrix(S, ndim=d, nconfig=nconfig, deltar=dr, transform_matrix=False, outputfile="")
    finally:
        if sym:
            fn.__dict__["freud"] = saved
    ctx.output("shape", list(np.asarray(m).shape))      # the values depend on the stubbed volumes: not comparable with a real run
    ctx.oblige("matrix shape (N, N*d)", tuple(np.asarray(m).shape) == (N, N * d))
    if tuple(np.asarray(m).shape) != (N, N * d):
        return
    # every row sums to zero over each displaced coordinate (translation invariance of the self term)
    for k in range(N):
        for j in range(d):
            ctx.oblige(f"row {k}: sum over particles of d V_k / d x_(i,{j}) is zero", O.eq(sum(m[k, d * i + j] for i in range(N)), 0, atol=1e-9))
    if not sym:
        return
    centre = [[(poss[nconfig][i][a] - (los[nconfig][a] + Ls[nconfig][a] / 2)) if a < d else 0 for a in range(3)] for i in range(N)]
    calls = stub.calls
    ctx.oblige("tessellations computed: 1 + 2*N*d", len(calls) == 1 + 2 * N * d)
    if len(calls) != 1 + 2 * N * d:
        return
    box0, pts0, V0 = calls[0]
    for i in range(N):
        for a in range(3):
            ctx.oblige(f"unperturbed call uses the requested frame: particle {i} coordinate {a}", O.eq(pts0[i][a], centre[i][a]))
    n = 1
    for i in range(N):
        for j in range(d):
            (_, pp, Vp), (_, pm, Vm) = calls[n], calls[n + 1]
            n += 2
            for k in range(N):
                for a in range(3):
                    wp = centre[k][a] + (dr if (k == i and a == j) else 0)
                    wm = centre[k][a] - (dr if (k == i and a == j) else 0)
                    ctx.oblige(f"+deltar call (particle {i}, coord {j}): position [{k},{a}]", O.eq(pp[k][a], wp))
                    ctx.oblige(f"-deltar call (particle {i}, coord {j}): position [{k},{a}]", O.eq(pm[k][a], wm))
            for k in range(N):
                if k != i:
                    ctx.oblige(f"A[{k}, {i}:{j}] = (V+ - V-)/(2 deltar)/V0", O.eq(m[k, d * i + j], (Vp[k] - Vm[k]) / (2 * dr) / V0[k]))
    # self terms
    n = 1
    diffs = {}
    for i in range(N):
        for j in range(d):
            (_, _, Vp), (_, _, Vm) = calls[n], calls[n + 1]
            n += 2
            for k in range(N):
                diffs[(k, i, j)] = (Vp[k] - Vm[k]) / (2 * dr)
    for k in range(N):
        for j in range(d):
            want = -sum(diffs[(k, i, j)] for i in range(N) if i != k) / V0[k]
            ctx.oblige(f"self term A[{k}, {k}:{j}] = - sum of the others", O.eq(m[k, d * k + j], want))


def cfg(tier, seed):
    out = [dict(d=2, N=3, F=1, nconfig=0, centred=False), dict(d=3, N=3, F=1, nconfig=0, centred=True),
           dict(d=2, N=4, F=2, nconfig=1, centred=False), dict(d=3, N=4, F=2, nconfig=1, centred=False),
           dict(d=3, N=4, F=2, nconfig=0, centred=True)]
    if tier == "thorough":
        out += [dict(d=2, N=5, F=3, nconfig=2, centred=False), dict(d=3, N=5, F=3, nconfig=1, centred=True)]
    return out


HARNESSES = [H("volume_matrix_structure", h_volume, cfg, timeout_ms=30000, abstract=True, budget_s=300)]
