"""C20 (partial): the Python side of the Voronoi wrappers, with the compiled tessellation replaced by an arbitrary one.

What the property says about the tessellation itself (symmetric neighbour relation, positive equal weights, volumes summing to
the box) is computed inside the compiled freud extension and is NOT claimed - symbolic execution stops at that boundary.
Claimed is what pymattersim's own code adds around it, for every tessellation the library could return:
  * convert_configuration centres every frame on its own box (any origin), pads z = 0 in 2D, one box per frame;
  * VolumeMatrix works on the *requested* frame, displaces exactly one coordinate of exactly one particle by +-deltar around
    the centred position, restores it, takes central differences of the returned volumes, fills the self term from translation
    invariance (every row sums to zero over each displaced coordinate) and normalises by the unperturbed volume.
  * cal_neighbors writes, for every tessellation the library returns (stub: enumerated neighbour topologies with decimal
    weights and volumes), one header per frame and one row per particle in id order, ids shifted to start at one, a
    coordination number equal to the number of listed neighbours and of listed weights, weights in the order of the
    neighbours, volumes in the overall file; the files are readable frame by frame by read_neighbors.  In the concrete replay
    the real library runs and the same layout clauses (plus symmetry of the relation and equal weights in both directions,
    which then come from freud itself) are checked on its output.
"""
import os
from fractions import Fraction

import numpy as np

from symx import ops as O
from symx.run import H
from checks import common as C

FUNCS = ["PyMatterSim.neighbors.freud_neighbors.convert_configuration", "PyMatterSim.neighbors.freud_neighbors.VolumeMatrix"]
BOUNDS = {
    "quick": "N=3..4 particles, F<=2 frames, requested frame 0 and 1, d in {2,3}, box origin / lengths / positions / deltar symbolic, "
             "the volumes returned by the tessellation arbitrary positive symbols per call",
    "thorough": "as quick with N=5 and F=3",
}
STUBS = ["freud.box.Box.from_box -> records the box lengths; freud.locality.Voronoi().compute((box, points)).volumes -> records the "
         "points array it was called with and returns fresh positive symbols (symbolic run); the concrete replay calls the real library"]
ASSUMPTIONS = ["the tessellation itself (neighbour symmetry, weights, volume sum) is inside compiled freud: not decided symbolically; "
               "those clauses are only observed on the real library's output in the concrete replays (sampling, labelled)",
               "cal_neighbors: the stubbed tessellations are enumerated topologies with decimal values (%.6f needs numbers)", "transform_matrix=False (the transformed matrix needs an N x N inverse)"]


class Stub:
    def __init__(self, ctx):
        self.ctx, self.calls, self.boxes = ctx, [], []
        stub = self

        class Box:
            @staticmethod
            def from_box(L, *a, **k):
                stub.boxes.append(L)
                return ("box", L)

        class _Res:
            def __init__(self, vols):
                self.volumes = vols

        class Voronoi:
            def compute(self, system, *a, **k):
                from symx.npf import sarr
                box, pts = system
                n = len(stub.calls)
                vols = [stub.ctx.real(f"V{n}_{i}", positive=True) for i in range(len(pts))]
                stub.calls.append((box, [[pts[i, a] for a in range(pts.shape[1])] for i in range(pts.shape[0])], vols))
                return _Res(sarr(vols))

        class _NS:
            pass
        self.box = _NS()
        self.box.Box = Box
        self.locality = _NS()
        self.locality.Voronoi = Voronoi


def h_volume(ctx, d, N, F, nconfig, centred):
    ctx.covers(*FUNCS)
    fn = ctx.repo("PyMatterSim.neighbors.freud_neighbors")
    ru = ctx.repo("PyMatterSim.reader.reader_utils")
    sym = ctx.mode == "sym"
    snaps, poss, los, Ls = [], [], [], []
    for f in range(F):
        L = [ctx.real(f"L{f}_{a}", positive=True) for a in range(d)]
        if not sym:
            L = [x if x > 0.5 else 3.0 + a for a, x in enumerate(L)]
        lo = [(-L[a] / 2) if centred else ctx.real(f"lo{f}_{a}") for a in range(d)]
        if not centred:
            tot = sum(2 * lo[a] + L[a] for a in range(d))
            ctx.assume(O.Not(O.eq(tot, 0)) if sym else abs(tot) > 1e-9)
        rows = [[L[a] if a == b else 0 for b in range(d)] for a in range(d)]
        pos = [[ctx.real(f"p{f}_{i}_{a}") for a in range(d)] for i in range(N)]
        if not sym:
            # keep the replay configuration inside its box and non-degenerate for the real tessellation
            base = [[0.31, 0.17, 0.73], [0.78, 0.52, 0.11], [0.12, 0.85, 0.42], [0.55, 0.33, 0.91], [0.93, 0.71, 0.58]]
            pos = [[lo[a] + L[a] * ((base[i][a] + 0.05 * np.tanh(pos[i][a])) % 1.0) for a in range(d)] for i in range(N)]
        snaps.append(C.snapshot(ctx, ru, f, [1] * N, C.farr(ctx, pos), rows, lo=lo))
        poss.append(pos)
        los.append(lo)
        Ls.append(L)
    S = ru.Snapshots(nsnapshots=F, snapshots=snaps)
    dr = ctx.real("deltar", positive=True)
    if not sym:
        dr = 0.01
    stub = None
    saved = None
    if sym:
        stub = Stub(ctx)
        saved = fn.__dict__.get("freud")
        fn.__dict__["freud"] = stub
    try:
        boxes, points = fn.convert_configuration(S)
        ctx.oblige("one box and one point set per frame", len(boxes) == F and len(points) == F)
        for f in range(F):
            pts = points[f]
            ctx.oblige(f"points[{f}] shape (N,3)", tuple(pts.shape) == (N, 3))
            if tuple(pts.shape) != (N, 3):
                continue
            for i in range(N):
                for a in range(3):
                    want = (poss[f][i][a] - (los[f][a] + Ls[f][a] / 2)) if a < d else 0
                    ctx.oblige(f"frame {f}: particle {i} coordinate {a} centred on the frame's own box", O.eq(pts[i, a], want))
        if sym:
            for f in range(F):
                bx = boxes[f] if f < len(boxes) else None
                okb = isinstance(bx, tuple) and len(bx) == 2 and bx[0] == "box"
                ctx.oblige(f"box[{f}] is a box object of the library", okb)
                if okb:
                    for a in range(d):
                        ctx.oblige(f"box[{f}] built from this frame's lengths [{a}]", O.eq(bx[1][a], Ls[f][a]))
            stub.calls.clear()
        else:
            for f in range(F):
                bx = boxes[f] if f < len(boxes) else None
                okb = bx is not None and hasattr(bx, "Lx")
                ctx.oblige(f"box[{f}] is a box object of the library", okb)
                if okb:
                    for a, nm in enumerate(("Lx", "Ly", "Lz")[:d]):
                        ctx.oblige(f"box[{f}] built from this frame's lengths [{a}]", O.eq(float(getattr(bx, nm)), float(Ls[f][a]), atol=1e-6))
        m = fn.VolumeMatrix(S, ndim=d, nconfig=nconfig, deltar=dr, transform_matrix=False, outputfile="")
    finally:
        if sym:
            fn.__dict__["freud"] = saved
    ctx.output("shape", list(np.asarray(m).shape))      # the values depend on the stubbed volumes: not comparable with a real run
    ctx.oblige("matrix shape (N, N*d)", tuple(np.asarray(m).shape) == (N, N * d))
    if tuple(np.asarray(m).shape) != (N, N * d):
        return
    # every row sums to zero over each displaced coordinate (translation invariance of the self term)
    for k in range(N):
        for j in range(d):
            ctx.oblige(f"row {k}: sum over particles of d V_k / d x_(i,{j}) is zero", O.eq(sum(m[k, d * i + j] for i in range(N)), 0, atol=1e-9))
    if not sym:
        return
    centre = [[(poss[nconfig][i][a] - (los[nconfig][a] + Ls[nconfig][a] / 2)) if a < d else 0 for a in range(3)] for i in range(N)]
    calls = stub.calls
    ctx.oblige("tessellations computed: 1 + 2*N*d", len(calls) == 1 + 2 * N * d)
    if len(calls) != 1 + 2 * N * d:
        return
    box0, pts0, V0 = calls[0]
    for (bx, _, _) in calls:
        okb = isinstance(bx, tuple) and len(bx) == 2
        ctx.oblige("every tessellation of VolumeMatrix uses the box of the requested frame",
                   okb and O.And(*[O.eq(bx[1][a], Ls[nconfig][a]) for a in range(d)]))
    for i in range(N):
        for a in range(3):
            ctx.oblige(f"unperturbed call uses the requested frame: particle {i} coordinate {a}", O.eq(pts0[i][a], centre[i][a]))
    n = 1
    for i in range(N):
        for j in range(d):
            (_, pp, Vp), (_, pm, Vm) = calls[n], calls[n + 1]
            n += 2
            for k in range(N):
                for a in range(3):
                    wp = centre[k][a] + (dr if (k == i and a == j) else 0)
                    wm = centre[k][a] - (dr if (k == i and a == j) else 0)
                    ctx.oblige(f"+deltar call (particle {i}, coord {j}): position [{k},{a}]", O.eq(pp[k][a], wp))
                    ctx.oblige(f"-deltar call (particle {i}, coord {j}): position [{k},{a}]", O.eq(pm[k][a], wm))
            for k in range(N):
                if k != i:
                    ctx.oblige(f"A[{k}, {i}:{j}] = (V+ - V-)/(2 deltar)/V0", O.eq(m[k, d * i + j], (Vp[k] - Vm[k]) / (2 * dr) / V0[k]))
    # self terms
    n = 1
    diffs = {}
    for i in range(N):
        for j in range(d):
            (_, _, Vp), (_, _, Vm) = calls[n], calls[n + 1]
            n += 2
            for k in range(N):
                diffs[(k, i, j)] = (Vp[k] - Vm[k]) / (2 * dr)
    for k in range(N):
        for j in range(d):
            want = -sum(diffs[(k, i, j)] for i in range(N) if i != k) / V0[k]
            ctx.oblige(f"self term A[{k}, {k}:{j}] = - sum of the others", O.eq(m[k, d * k + j], want))


class _NL(np.ndarray):
    """stand-in for freud's NeighborList: an (nbonds, 2) integer array with a .weights attribute"""
    weights = None


TOPOLOGIES = {
    # symmetric relations on 4 particles, listed sorted by the first index (as freud does); weights are symmetric decimals
    "ring": [(0, 1), (0, 3), (1, 0), (1, 2), (2, 1), (2, 3), (3, 0), (3, 2)],
    "star": [(0, 1), (0, 2), (0, 3), (1, 0), (2, 0), (3, 0)],
    "full": [(i, j) for i in range(4) for j in range(4) if i != j],
}


class FileStub(Stub):
    """tessellation stub for cal_neighbors: a different enumerated topology per frame, decimal weights and volumes"""

    def __init__(self, ctx, topos):
        super().__init__(ctx)
        stub = self
        self.frames = []

        class Voronoi:
            def compute(self, system, *a, **k):
                n = len(stub.frames)
                pairs = TOPOLOGIES[topos[n % len(topos)]]
                nl = np.array(pairs, dtype=np.int64).view(_NL)
                w = {}
                for (i, j) in pairs:
                    w[(i, j)] = round(0.25 + 0.125 * (min(i, j) + 1) + 0.015625 * (max(i, j) + 1) + 0.5 * n, 6)
                nl.weights = np.array([w[p] for p in pairs])
                self.nlist = nl
                self.volumes = np.array([round(1.5 + 0.25 * i + n, 6) for i in range(len(system[1]))])
                stub.frames.append((pairs, [float(x) for x in nl.weights], [float(x) for x in self.volumes], system[1]))
                return self
        self.locality.Voronoi = Voronoi


def _parse_rows(path):
    frames, cur = [], None
    for line in open(path):
        tok = line.split()
        if not tok:
            continue
        if tok[0] == "id":
            cur = []
            frames.append(cur)
        elif cur is not None:
            cur.append(tok)
    return frames


def h_files(ctx, d, F, topos):
    """cal_neighbors: file layout for every (stubbed) tessellation; the replay runs the real library"""
    ctx.covers("PyMatterSim.neighbors.freud_neighbors.cal_neighbors", "PyMatterSim.neighbors.read_neighbors.read_neighbors", FUNCS[0])
    fn = ctx.repo("PyMatterSim.neighbors.freud_neighbors")
    rn = ctx.repo("PyMatterSim.neighbors.read_neighbors")
    ru = ctx.repo("PyMatterSim.reader.reader_utils")
    sym = ctx.mode == "sym"
    N = 4
    L = [C.const(ctx, x) for x in (3, 4, 5)[:d]]
    lo = [ctx.real(f"lo{a}") for a in range(d)]
    tot = sum(2 * lo[a] + L[a] for a in range(d))
    ctx.assume(O.Not(O.eq(tot, 0)) if sym else abs(tot) > 1e-9)
    rows = [[L[a] if a == b else 0 for b in range(d)] for a in range(d)]
    base = [[0.31, 0.17, 0.73], [0.78, 0.52, 0.11], [0.12, 0.85, 0.42], [0.55, 0.33, 0.91]]
    snaps, poss = [], []
    for f in range(F):
        pos = [[ctx.real(f"p{f}_{i}_{a}") for a in range(d)] for i in range(N)]
        if not sym:
            pos = [[lo[a] + float(L[a]) * ((base[(i + f) % N][a] + 0.05 * np.tanh(pos[i][a])) % 1.0) for a in range(d)] for i in range(N)]
        snaps.append(C.snapshot(ctx, ru, f, [1] * N, C.farr(ctx, pos), rows, lo=lo))
        poss.append(pos)
    S = ru.Snapshots(nsnapshots=F, snapshots=snaps)
    out = os.path.join(ctx.tmpdir(), "voro")
    stub = saved = None
    if sym:
        stub = FileStub(ctx, topos)
        saved = fn.__dict__.get("freud")
        fn.__dict__["freud"] = stub
    try:
        fn.cal_neighbors(S, outputfile=out)
    finally:
        if sym:
            fn.__dict__["freud"] = saved
    wname = out + (".edgelength.dat" if d == 2 else ".facearea.dat")
    ok_files = all(os.path.exists(p) for p in (out + ".neighbor.dat", wname, out + ".overall.dat"))
    ctx.oblige("neighbour, weight and overall files are written", ok_files)
    if not ok_files:
        return
    nb, wt = _parse_rows(out + ".neighbor.dat"), _parse_rows(wname)
    ov = [l.split() for l in open(out + ".overall.dat")][1:]
    ctx.output("frames", len(nb))
    ctx.oblige("one header per frame in the neighbour and the weight file", len(nb) == F and len(wt) == F)
    ctx.oblige("overall file: one row per particle and frame", len(ov) == F * N)
    if len(nb) != F or len(wt) != F or len(ov) != F * N:
        return
    for f in range(F):
        ids = [int(r[0]) for r in nb[f]]
        ctx.oblige(f"frame {f}: every particle once, in id order (ids from 1)", ids == list(range(1, N + 1)) and [int(r[0]) for r in wt[f]] == ids)
        if ids != list(range(1, N + 1)):
            continue
        lists = {}
        for r, rw in zip(nb[f], wt[f]):
            i = int(r[0]) - 1
            cn = int(r[1])
            lists[i] = ([int(x) - 1 for x in r[2:]], [float(x) for x in rw[2:]])
            ctx.oblige(f"frame {f} particle {i}: cn = listed neighbours = listed weights", cn == len(r) - 2 == len(rw) - 2 == int(rw[1]))
            ctx.oblige(f"frame {f} particle {i}: overall row", int(ov[f * N + i][0]) == i + 1 and int(ov[f * N + i][1]) == cn)
            ctx.oblige(f"frame {f} particle {i}: ids in range", all(0 <= j < N for j in lists[i][0]))
        if len(lists) != N:
            continue
        # with few particles in a periodic box the real tessellation may list a pair more than once (through different
        # images) and a particle as neighbour of its own image: symmetry and equal weights are compared as multisets
        def bonds(i, j):
            return sorted(round(w, 5) for k, w in zip(lists[i][0], lists[i][1]) if k == j)
        sym_rel = all(len(bonds(i, j)) == len(bonds(j, i)) for i in range(N) for j in range(N))
        ctx.oblige(f"frame {f}: neighbour relation symmetric", sym_rel)
        if sym_rel:
            same_w = all(all(abs(x - y) < 2e-5 for x, y in zip(bonds(i, j), bonds(j, i))) for i in range(N) for j in range(N))
            ctx.oblige(f"frame {f}: weights positive and equal in both directions",
                       same_w and all(w > 0 for i in range(N) for w in lists[i][1]))
        if sym:
            pairs, ws, vols, pts = stub.frames[f]
            for i in range(N):
                want_n = [j for (a, j) in pairs if a == i]
                want_w = [ws[k] for k, (a, j) in enumerate(pairs) if a == i]
                ctx.oblige(f"frame {f} particle {i}: the library's neighbours, in its order", lists[i][0] == want_n)
                ctx.oblige(f"frame {f} particle {i}: the library's weights, in the order of the neighbours",
                           len(lists[i][1]) == len(want_w) and all(abs(x - y) < 5e-7 for x, y in zip(lists[i][1], want_w)))
                ctx.oblige(f"frame {f} particle {i}: the library's volume", abs(float(ov[f * N + i][2]) - vols[i]) < 5e-7)
                for a in range(3):
                    want = (poss[f][i][a] - (lo[a] + L[a] / 2)) if a < d else 0
                    ctx.oblige(f"frame {f}: tessellation called with particle {i} coordinate {a} of this frame, centred", O.eq(pts[i, a], want))
        else:
            vsum = sum(float(ov[f * N + i][2]) for i in range(N))
            box = float(np.prod([float(x) for x in L]))
            ctx.oblige(f"frame {f}: cell volumes sum to the box volume", abs(vsum - box) < 1e-3 * box)
    # the neighbour-file reader takes the files frame by frame
    with open(out + ".neighbor.dat") as fh:
        for f in range(F):
            arr = rn.read_neighbors(fh, N, 20)
            okr = arr.shape[0] == N and all(int(arr[i, 0]) == len(nb[f][i]) - 2 and [int(x) for x in arr[i, 1:1 + int(arr[i, 0])]] == [int(x) - 1 for x in nb[f][i][2:]]
                                           for i in range(N))
            ctx.oblige(f"frame {f}: read_neighbors returns the written list", okr)
    # ... also when asked for fewer neighbours than some particle has (rows truncated to the first Nmax entries)
    with open(out + ".neighbor.dat") as fh:
        for f in range(F):
            arr = rn.read_neighbors(fh, N, 1)
            okt = arr.shape == (N, 2) and all(int(arr[i, 0]) == min(1, len(nb[f][i]) - 2) and
                                              (len(nb[f][i]) == 2 or int(arr[i, 1]) == int(nb[f][i][2]) - 1) for i in range(N))
            ctx.oblige(f"frame {f}: read_neighbors with Nmax=1 returns the first listed neighbour", okt)


def cfg_files(tier, seed):
    out = [dict(d=2, F=2, topos=["ring", "star"]), dict(d=3, F=2, topos=["full", "ring"]), dict(d=2, F=1, topos=["star"])]
    if tier == "thorough":
        out += [dict(d=3, F=3, topos=["star", "full", "ring"]), dict(d=2, F=3, topos=["ring", "ring", "full"])]
    return out


def cfg(tier, seed):
    out = [dict(d=2, N=3, F=1, nconfig=0, centred=False), dict(d=3, N=3, F=1, nconfig=0, centred=True),
           dict(d=2, N=4, F=2, nconfig=1, centred=False), dict(d=3, N=4, F=2, nconfig=1, centred=False),
           dict(d=3, N=4, F=2, nconfig=0, centred=True)]
    if tier == "thorough":
        out += [dict(d=2, N=5, F=3, nconfig=2, centred=False), dict(d=3, N=5, F=3, nconfig=1, centred=True)]
    return out


HARNESSES = [H("volume_matrix_structure", h_volume, cfg, timeout_ms=30000, abstract=True, budget_s=300),
             H("neighbour_files", h_files, cfg_files, timeout_ms=30000, abstract=True, budget_s=300)]
