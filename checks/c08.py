"""C08 tabulated spherical harmonics are the standard Y_lm for all angles (DESIGN C08)."""
from fractions import Fraction

import numpy as np

from symx import ops as O, ref
from symx.run import H

MOD = "PyMatterSim.utils.spherical_harmonics"
FUNCS = [f"{MOD}.SphHarm{l}" for l in range(1, 11)] + [f"{MOD}.sph_harm_l", f"{MOD}.SphHarm_above"]
BOUNDS = {
    "quick": "all polar angles (cos, sin>=0 on the unit circle) and all azimuths (unit circle); l = 1..10, all m (120 closed "
             "forms as identities in both angles); dispatcher l = 1..12; delegated branch l = 11,12 (call contract, both "
             "signs of the azimuth); Unsold sum and conjugation symmetry l = 1..10",
    "thorough": "as quick plus delegated branch l = 11..20",
}
STUBS = ["scipy.special.sph_harm / sph_harm_y -> reference Y_n^m by the documented signature (symbolic run only; the "
         "concrete replay calls the real compiled routine)"]
ASSUMPTIONS = ["floats modelled as reals", "pi is a symbol with 3.14159265 < pi < 3.14159266; sqrt(q/pi) = sqrt(q) * sqrt(1/pi)",
               "numeric accuracy of scipy's compiled routine for l > 10 is checked only in the concrete replay"]


def _angles(ctx):
    th = ctx.angle("theta", polar=True)
    ph = ctx.angle("phi")
    return th, ph


def _bind_scipy_stub(ctx, mod):
    """symbolic run: the library call returns the reference value for the documented signature"""
    if ctx.mode != "sym":
        return

    def sph_harm(m, n, theta_azimuth, phi_polar):
        re, im = ref.ylm(ctx, int(n), int(m), phi_polar, theta_azimuth)
        return O.cplx(re, im)

    def sph_harm_y(n, m, theta_polar, phi_azimuth):
        re, im = ref.ylm(ctx, int(n), int(m), theta_polar, phi_azimuth)
        return O.cplx(re, im)

    saved = {}
    for nm, fn in (("sph_harm", sph_harm), ("sph_harm_y", sph_harm_y)):
        if nm in mod.__dict__ and getattr(mod.__dict__[nm], "__module__", "").startswith("scipy"):
            saved[nm] = mod.__dict__[nm]
            mod.__dict__[nm] = fn
    return saved


def _restore(mod, saved):
    for k, v in (saved or {}).items():
        mod.__dict__[k] = v


def _check_table(ctx, l, vals, th, ph, tag):
    ctx.oblige(f"{tag}.len", len(vals) == 2 * l + 1)
    if len(vals) != 2 * l + 1:
        return
    for i, m in enumerate(range(-l, l + 1)):
        re, im = O.re_im(vals[i])
        rre, rim = ref.ylm(ctx, l, m, th, ph)
        ctx.oblige(f"{tag}[m={m}].re", O.eq(re, rre))
        ctx.oblige(f"{tag}[m={m}].im", O.eq(im, rim))


def h_table(ctx, l):
    ctx.covers(*FUNCS[:10])
    sh = ctx.repo(MOD)
    th, ph = _angles(ctx)
    vals = getattr(sh, f"SphHarm{l}")(th, ph)
    ctx.output("Y", vals)
    _check_table(ctx, l, vals, th, ph, f"Y{l}")
    # consequences stated in the property, decided on the code's own values
    tot = 0
    for v in vals:
        re, im = O.re_im(v)
        tot = tot + re * re + im * im
    pi_ = O.pi(ctx)
    ctx.oblige(f"unsold[{l}]", O.eq(tot, (Fraction(2 * l + 1, 4) if ctx.mode == "sym" else (2 * l + 1) / 4.0) / pi_))
    for m in range(1, l + 1):
        a_re, a_im = O.re_im(vals[l - m])
        b_re, b_im = O.re_im(vals[l + m])
        sg = -1 if m % 2 else 1
        ctx.oblige(f"conj_sym[{l},{m}].re", O.eq(a_re, sg * b_re))
        ctx.oblige(f"conj_sym[{l},{m}].im", O.eq(a_im, -sg * b_im))


def h_dispatch(ctx, l):
    ctx.covers(FUNCS[10], FUNCS[11])
    sh = ctx.repo(MOD)
    th, ph = _angles(ctx)
    saved = _bind_scipy_stub(ctx, sh)
    try:
        vals = sh.sph_harm_l(l, th, ph)
    finally:
        _restore(sh, saved)
    ctx.oblige(f"dispatch[{l}] returns a table", vals is not None)
    if vals is None:
        return
    ctx.output("Y", vals)
    _check_table(ctx, l, vals, th, ph, f"sph_harm_l({l})")


def h_poles(ctx, l, south):
    """the dispatcher exactly at the poles (bond along +z / -z): closed in the polar angle, every azimuth"""
    ctx.covers(FUNCS[10], FUNCS[11])
    sh = ctx.repo(MOD)
    if ctx.mode == "sym":
        from symx.scalar import SAngle, SR
        th = SAngle(SR.const(-1 if south else 1), SR.const(0))
    else:
        import math
        th = math.pi if south else 0.0
    ph = ctx.angle("phi")
    saved = _bind_scipy_stub(ctx, sh)
    try:
        vals = sh.sph_harm_l(l, th, ph)
    finally:
        _restore(sh, saved)
    ctx.oblige(f"dispatch[{l}] returns a table", vals is not None)
    if vals is None:
        return
    ctx.output("Y", vals)
    _check_table(ctx, l, vals, th, ph, f"sph_harm_l({l}) at the {'south' if south else 'north'} pole")


def h_above(ctx, l):
    ctx.covers(FUNCS[11])
    sh = ctx.repo(MOD)
    th, ph = _angles(ctx)
    saved = _bind_scipy_stub(ctx, sh)
    try:
        vals = sh.SphHarm_above(l, th, ph)
    finally:
        _restore(sh, saved)
    ctx.output("Y", vals)
    _check_table(ctx, l, vals, th, ph, f"SphHarm_above({l})")


HARNESSES = [
    H("table", h_table, lambda tier, seed: [dict(l=l) for l in range(1, 11)], timeout_ms=30000),
    H("dispatcher", h_dispatch, lambda tier, seed: [dict(l=l) for l in range(1, 13)], timeout_ms=30000),
    H("poles", h_poles, lambda tier, seed: [dict(l=l, south=s) for l in range(1, 13) for s in (False, True)], timeout_ms=30000),
    H("delegated", h_above, lambda tier, seed: [dict(l=l) for l in ((11, 12) if tier == "quick" else range(11, 21))],
      timeout_ms=30000),
]
