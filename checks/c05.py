"""C05 neighbour lists hold exactly the right particles, nearest first, via the file (DESIGN C05)."""
import os
from fractions import Fraction
from itertools import product

import numpy as np

from symx import ops as O
from symx.run import H
from checks import common as C

FUNCS = ["PyMatterSim.neighbors.calculate_neighbors.Nnearests",
         "PyMatterSim.neighbors.calculate_neighbors.cutoffneighbors",
         "PyMatterSim.neighbors.calculate_neighbors.cutoffneighbors_particletype",
         "PyMatterSim.neighbors.read_neighbors.read_neighbors", "PyMatterSim.utils.pbc.remove_pbc"]
BOUNDS = {
    "quick": "N=3 particles, d=2, F<=2 frames; all real positions; global cut-off r_c>0, symbolic 2x2 type-pair cut-off matrix, "
             "N-nearest with Nn in {1,2}; open boundaries (symbolic positions) and concrete orthogonal/triclinic periodic cells; "
             "reader: all coordination patterns cn in {0,1,2}^3 x Nmax in {1,2,3} x 2 frames, symbolic weights",
    "thorough": "as quick plus d=3 and N=4 (two particles concrete)",
}
STUBS = ["np.rint -> function symbol + lemma instances (periodic cells)", "np.linalg.inv -> adjugate closed form"]
ASSUMPTIONS = ["floats modelled as reals", "particles pairwise distinct modulo the lattice (coincident particles outside the claim)",
               "ties: any order of equidistant neighbours is accepted"]


def _parse(path):
    """independent parser of the neighbour file: list of frames, each {id: [cn, ids...]} in file order"""
    frames = []
    cur = None
    for line in open(path):
        tok = line.split()
        if not tok:
            continue
        if tok[0] == "id":
            cur = []
            frames.append(cur)
        else:
            cur.append([int(t) for t in tok])
    return frames


def h_lists(ctx, d, N, F, cell, ppp, kind, Nn=None, types=None, fixed=0):
    ctx.covers(*FUNCS)
    cn = ctx.repo("PyMatterSim.neighbors.calculate_neighbors")
    rn = ctx.repo("PyMatterSim.neighbors.read_neighbors")
    ru = ctx.repo("PyMatterSim.reader.reader_utils")
    sym = ctx.mode == "sym"
    cells = list(cell) if isinstance(cell, (list, tuple)) else [cell] * F     # the box may change from frame to frame (NPT)
    rows_f = [C.make_cell(ctx, d, c) for c in cells]
    types = types or [1] * N
    K = max(types)
    fixed_pos = [["1/3", "1/5", "1/7"], ["-2/5", "3/4", "1/2"], ["9/10", "-1/3", "-3/5"], ["-1/7", "-6/5", "4/5"]]
    snaps, poss = [], []
    for f in range(F):
        prow = []
        for i in range(N):
            nfix = fixed[f] if isinstance(fixed, (list, tuple)) else fixed
            if i < nfix:
                prow.append([C.const(ctx, fixed_pos[(i + f) % 4][a]) for a in range(d)])
            else:
                prow.append([ctx.real(f"p{f}_{i}_{a}") for a in range(d)])
        pos = C.farr(ctx, prow)
        poss.append(prow)
        snaps.append(C.snapshot(ctx, ru, f, types, pos, rows_f[f]))
    S = ru.Snapshots(nsnapshots=F, snapshots=snaps)

    def d2(f, i, j):
        v = [poss[f][j][a] - poss[f][i][a] for a in range(d)]
        return C.norm2(C.min_image(ctx, v, rows_f[f], ppp))

    D2 = [[[d2(f, i, j) if i != j else 0 for j in range(N)] for i in range(N)] for f in range(F)]
    for f in range(F):
        for i in range(N):
            for j in range(i + 1, N):
                ctx.assume(O.gt(D2[f][i][j], 0) if sym else D2[f][i][j] > 1e-12)
    path = os.path.join(ctx.tmpdir(), "nl.dat")
    pp = np.array(ppp)
    if kind == "global":
        rc = ctx.real("rc", positive=True)
        cn.cutoffneighbors(S, rc, ppp=pp, fnfile=path)
        cut = lambda i, j: rc
    elif kind == "typed":
        rcm = [[ctx.real(f"rc{a}{b}", positive=True) for b in range(K)] for a in range(K)]
        cn.cutoffneighbors_particletype(S, C.farr(ctx, rcm), ppp=pp, fnfile=path)
        cut = lambda i, j: rcm[types[i] - 1][types[j] - 1]
    else:
        cn.Nnearests(S, N=Nn, ppp=pp, fnfile=path)
    frames = _parse(path)
    ctx.oblige("one header per frame", len(frames) == F)
    if len(frames) != F:
        return
    for f, rowsf in enumerate(frames):
        ctx.oblige(f"rows in id order[{f}]", [r[0] for r in rowsf] == list(range(1, N + 1)))
        if [r[0] for r in rowsf] != list(range(1, N + 1)):
            return
        lists = []
        for i, r in enumerate(rowsf):
            cnum, ids = r[1], [x - 1 for x in r[2:]]
            lists.append(ids)
            ctx.oblige(f"cn = listed[{f},{i}]", cnum == len(ids))
            ctx.oblige(f"no self, no repeats[{f},{i}]", i not in ids and len(set(ids)) == len(ids) and all(0 <= j < N for j in ids))
            if i in ids or not all(0 <= j < N for j in ids):
                continue
            others = [k for k in range(N) if k != i and k not in ids]
            if kind in ("global", "typed"):
                for j in ids:
                    c = cut(i, j)
                    ctx.oblige(f"inside cutoff[{f},{i},{j}]", O.le(D2[f][i][j], c * c))
                for k in others:
                    c = cut(i, k)
                    ctx.oblige(f"outside cutoff[{f},{i},{k}]", O.gt(D2[f][i][k], c * c))
            else:
                ctx.oblige(f"exactly N listed[{f},{i}]", len(ids) == Nn)
                for j in ids:
                    for k in others:
                        ctx.oblige(f"closer than unlisted[{f},{i},{j},{k}]", O.le(D2[f][i][j], D2[f][i][k]))
            for a, b in zip(ids, ids[1:]):
                ctx.oblige(f"nearest first[{f},{i},{a},{b}]", O.le(D2[f][i][a], D2[f][i][b]))
        if kind == "global":
            ctx.oblige(f"symmetric[{f}]", all((i in lists[j]) == (j in lists[i]) for i in range(N) for j in range(N) if i != j))
    # read the written file back frame by frame from one handle
    for Nmax in (1, 2, 30):
        with open(path) as fh:
            for f, rowsf in enumerate(frames):
                arr = rn.read_neighbors(fh, N, Nmax)
                maxcn = max(r[1] for r in rowsf)
                width = 1 + min(maxcn, Nmax)
                want = np.zeros((N, width), dtype=int)
                for r in rowsf:
                    k = min(r[1], Nmax)
                    want[r[0] - 1, 0] = k
                    want[r[0] - 1, 1:1 + k] = [x - 1 for x in r[2:2 + k]]
                ok = tuple(arr.shape) == want.shape and arr.dtype.kind == "i" and bool((np.asarray(arr) == want).all())
                ctx.oblige(f"read back[{f},Nmax={Nmax}]", ok)


def h_reader(ctx, N, cns, Nmax, F, weights):
    """read_neighbors on hand-written files: every coordination pattern, Nmax below/at/above, consecutive frames"""
    ctx.covers(FUNCS[3])
    rn = ctx.repo("PyMatterSim.neighbors.read_neighbors")
    lines, expect = [], []
    for f in range(F):
        lines.append("id     cn     " + ("neighborlist" if not weights else "edgelength"))
        rowsf = []
        order = list(range(N)) if f % 2 == 0 else list(reversed(range(N)))
        vals = {}
        for i in range(N):
            c = cns[(i + f) % N]
            if weights:
                vals[i] = [ctx.real(f"w{f}_{i}_{k}") for k in range(c)]
            else:
                vals[i] = [((i + 1 + k) % N) + 1 for k in range(c)]
        for i in order:
            lines.append(" ".join([str(i + 1), str(len(vals[i]))] + [ctx.fmt(v) if weights else str(v) for v in vals[i]]))
        expect.append(vals)
    path = os.path.join(ctx.tmpdir(), "in.dat")
    with open(path, "w") as fh:
        fh.write("\n".join(lines) + "\n")
    with open(path) as fh:
        for f in range(F):
            arr = rn.read_neighbors(fh, N, Nmax)
            ctx.output(f"arr{f}", arr)
            vals = expect[f]
            maxcn = max(len(v) for v in vals.values())
            width = 1 + (maxcn if maxcn < Nmax else Nmax)
            ctx.oblige(f"shape[{f}]", tuple(arr.shape) == (N, width))
            ctx.oblige(f"dtype[{f}]", (arr.dtype.kind == "i") == (not weights) if not hasattr(arr, "_dt") or arr.dtype != object else weights)
            if tuple(arr.shape) != (N, width):
                continue
            for i in range(N):
                k = min(len(vals[i]), Nmax)
                ctx.oblige(f"cn[{f},{i}]", O.eq(arr[i, 0], k))
                for c in range(1, width):
                    if c <= k:
                        want = vals[i][c - 1] if weights else vals[i][c - 1] - 1
                    else:
                        want = 0
                    ctx.oblige(f"entry[{f},{i},{c}]", O.eq(arr[i, c], want))


def cfg_lists(tier, seed):
    out = []
    dims = (2,) if tier == "quick" else (2, 3)
    for d in dims:
        open_ = [0] * d
        full = [1] * d
        part = [1] + [0] * (d - 1)
        if tier == "quick":
            geos = [("sym-o", open_, ("global", "typed", "nn")), ("o", full, ("global",)), ("t-", full, ("nn",)), ("t+", part, ("typed",))]
        else:
            geos = [(c, p, ("global", "typed", "nn")) for c, p in (("sym-o", open_), ("o", full), ("t-", full), ("t+", part))]
        for cell, ppp, kinds in geos:
            if "global" in kinds:
                out.append(dict(d=d, N=3, F=1, cell=cell, ppp=ppp, kind="global"))
            if "typed" in kinds:
                out.append(dict(d=d, N=3, F=1, cell=cell, ppp=ppp, kind="typed", types=[1, 2, 1]))
            if "nn" in kinds:
                for Nn in (1, 2):
                    out.append(dict(d=d, N=3, F=1, cell=cell, ppp=ppp, kind="nnearest", Nn=Nn))
        # two frames: the first symbolic, the second concrete (frames are independent; the product of their
        # sort orders is not explored)
        out.append(dict(d=d, N=3, F=2, cell="sym-o", ppp=open_, kind="global", fixed=[1, 3]))
        out.append(dict(d=d, N=3, F=2, cell="sym-o", ppp=open_, kind="nnearest", Nn=1, fixed=[3, 1]))
        # the cell changes between frames (constant-pressure runs): each frame's own cell must be used
        out.append(dict(d=d, N=3, F=2, cell=["o", "t-"], ppp=full, kind="global", fixed=[3, 2]))
        out.append(dict(d=d, N=3, F=2, cell=["t+", "o"], ppp=full, kind="nnearest", Nn=2, fixed=[3, 2]))
        if tier == "thorough":
            out.append(dict(d=d, N=3, F=2, cell=["o", "t+"], ppp=full, kind="typed", types=[1, 2, 1], fixed=[3, 2]))
        if tier == "thorough":
            out.append(dict(d=d, N=4, F=1, cell="sym-o", ppp=open_, kind="global", fixed=2))
            out.append(dict(d=d, N=4, F=1, cell="sym-o", ppp=open_, kind="nnearest", Nn=3, fixed=2))
            out.append(dict(d=d, N=4, F=1, cell="sym-o", ppp=open_, kind="typed", types=[1, 2, 2, 1], fixed=2))
    return out


def cfg_reader(tier, seed):
    out = []
    for cns in product((0, 1, 2), repeat=3):
        if max(cns) == 0:
            continue
        for Nmax in (1, 2, 3):
            for weights in (False, True):
                out.append(dict(N=3, cns=list(cns), Nmax=Nmax, F=2, weights=weights))
    return out


HARNESSES = [H("lists", h_lists, cfg_lists, timeout_ms=40000, validate_timeout_ms=2000), H("reader", h_reader, cfg_reader)]
