"""C11 Hessian is the mass-weighted second derivative of the documented pair energy (DESIGN C11)."""
import os
from fractions import Fraction

import numpy as np

from symx import ops as O
from symx.run import H
from checks import common as C

FUNCS = ["PyMatterSim.static.hessians.HessianMatrix.diagonalize_hessian", "PyMatterSim.static.hessians.HessianMatrix.pair_matrix",
         "PyMatterSim.static.hessians.PairInteractions.caller", "PyMatterSim.static.vector.participation_ratio",
         "PyMatterSim.utils.pbc.remove_pbc"]
BOUNDS = {
    "quick": "N=2 particles of two species (N=3 in one LJ run), d in {2,3}; Lennard-Jones, inverse power law n in {6,12}, harmonic "
             "(alpha=2) and Hertz (alpha=5/2); shift on/off; all positions, masses (unequal allowed), epsilon/sigma/r_c matrices "
             "symbolic; open boundaries and concrete periodic cells; both sides of every cut-off test explored",
    "thorough": "as quick with N=3 for every potential and triclinic cells",
}
STUBS = ["np.linalg.eigh -> fresh eigenvalues and unit-norm eigenvector columns (the decomposition itself is LAPACK: outside "
         "the claim; in concrete replays the real eigh runs and omega is checked against eigvalsh of the saved matrix)",
         "np.save / to_csv -> recorders in the symbolic run (real files in replays)", "np.rint -> symbol + lemma instances"]
ASSUMPTIONS = ["floats modelled as reals", "masses, epsilon, sigma, r_c > 0; symmetric parameter matrices", "harmonic/Hertz: r_c = sigma "
               "(documented cut-off) so that interacting pairs have r <= sigma", "particles distinct; pairs exactly at the cut-off "
               "with shift off are outside (U discontinuous)"]


def pair_energy(model, r, eps, sig, rc, shift, n=None, alpha=None, s1rc=None, A=1):
    if model == "lj":
        s = 4 * eps * ((sig / r) ** 12 - (sig / r) ** 6)
    elif model == "ipl":
        s = A * eps * (sig / r) ** n
    else:
        s = eps / alpha * (1 - r / sig) ** alpha
    if shift and s1rc is not None:
        s = s - s1rc * (r - rc)
    return s


def h_hessian(ctx, d, N, types, model, shift, cell, ppp, n=None, alpha=None, mass_order="asc", A=None):
    ctx.covers(*FUNCS)
    hs = ctx.repo("PyMatterSim.static.hessians")
    ru = ctx.repo("PyMatterSim.reader.reader_utils")
    sym = ctx.mode == "sym"
    rows = C.make_cell(ctx, d, cell)
    pos = [[ctx.real(f"p{i}_{a}") for a in range(d)] for i in range(N)]
    snap = C.snapshot(ctx, ru, 0, types, C.farr(ctx, pos), rows)
    K = 2
    # the masses map is looked up by type id: its insertion order is irrelevant (config mass_order)
    mass = {t: ctx.real(f"m{t}", positive=True) for t in ((1, 2) if mass_order == "asc" else (2, 1))}

    def symm(name):
        a11, a12, a22 = (ctx.real(f"{name}11", positive=True), ctx.real(f"{name}12", positive=True), ctx.real(f"{name}22", positive=True))
        return [[a11, a12], [a12, a22]]
    eps, sig = symm("eps"), symm("sig")
    rcs = symm("rc") if model != "hh" else sig
    nn = None
    aa = None
    if model == "ipl":
        nn = Fraction(n) if sym else float(n)
    if model == "hh":
        aa = Fraction(alpha) if sym else float(Fraction(alpha))
    # inverse power law prefactor: 1 unless the configuration asks for a symbolic A > 0
    Aval = (1.0 if not sym else 1)
    if A == "sym":
        Aval = ctx.real("A", positive=True)
        if not sym and not Aval > 0:
            Aval = 2.5
    params = hs.InteractionParams(
        model_name={"lj": hs.ModelName.lennard_jones, "ipl": hs.ModelName.inverse_power_law, "hh": hs.ModelName.harmonic_hertz}[model],
        ipl_n=nn if nn is not None else 0, ipl_A=Aval, harmonic_hertz_alpha=aa if aa is not None else 0)
    # minimum-image pair vectors and distances (reference side)
    def rvec(i, j):
        return C.min_image(ctx, [pos[i][a] - pos[j][a] for a in range(d)], rows, ppp)
    R2 = {}
    for i in range(N):
        for j in range(i + 1, N):
            R2[(i, j)] = C.norm2(rvec(i, j))
            ctx.assume(O.gt(R2[(i, j)], 0) if sym else R2[(i, j)] > 1e-12)
            rc = rcs[types[i] - 1][types[j] - 1]
            if not shift or model == "hh":
                ctx.assume(O.Not(O.eq(R2[(i, j)], rc * rc)) if sym else abs(R2[(i, j)] - rc * rc) > 1e-9)
    out = os.path.join(ctx.tmpdir(), "hess")
    # eigh stub (symbolic run)
    stub = {}
    if sym:
        from symx import npf

        def eigh(M):
            nd = M.shape[0]
            ev = ctx.array("lam", (nd,))
            vec = ctx.array("vec", (nd, nd))
            for k in range(nd):
                ctx.assume(O.eq(sum(vec[r, k] * vec[r, k] for r in range(nd)), 1))
            stub["ev"], stub["vec"], stub["M"] = ev, vec, M
            return ev, vec
        npf.HOOKS["linalg.eigh"] = eigh
        npf.RECORD["save"].clear()
        from symx import pdf
        pdf.RECORD["to_csv"].clear()
    try:
        obj = hs.HessianMatrix(snap, masses=mass, epsilons=C.farr(ctx, eps), sigmas=C.farr(ctx, sig), r_cuts=C.farr(ctx, rcs),
                               ppp=np.array(ppp), shiftpotential=shift)
        obj.diagonalize_hessian(params, saveevecs=True, savehessian=True, outputfile=out)
    finally:
        if sym:
            from symx import npf
            npf.HOOKS.pop("linalg.eigh", None)
    if sym:
        from symx import npf, pdf
        saved = {os.path.basename(f): a for f, a in npf.RECORD["save"]}
        Hm = saved.get("hess.hessianmatrix.npy")
        ctx.oblige("hessian saved", Hm is not None)
        ctx.oblige("eigenvectors saved", saved.get("hess.evecs.npy") is stub.get("vec"))
        csv = pdf.RECORD["to_csv"][-1][1] if pdf.RECORD["to_csv"] else None
    else:
        Hm = np.load(out + ".hessianmatrix.npy")
        evecs = np.load(out + ".evecs.npy")
        import pandas as pd
        csv = pd.read_csv(out + ".omega_PR.csv")
    if Hm is None:
        return
    ctx.output("H", Hm)
    nd = N * d
    ctx.oblige("shape", tuple(Hm.shape) == (nd, nd))
    # which pairs interact on this path (decided by the code's own cut-off tests; re-asked here through the cache)
    inter = {}
    for (i, j), r2 in R2.items():
        rc = rcs[types[i] - 1][types[j] - 1]
        inter[(i, j)] = bool(O.le(r2, rc * rc))
    # reference Hessian
    if sym:
        from symx import diff as D
        U = 0
        for (i, j), on in inter.items():
            if not on:
                continue
            ti, tj = types[i] - 1, types[j] - 1
            r = O.sqrt(R2[(i, j)])
            rcv = rcs[ti][tj]
            s1rc = None
            if shift and model != "hh":
                rsym = ctx.real(f"rr{i}{j}", positive=True)
                s_of_r = pair_energy(model, rsym, eps[ti][tj], sig[ti][tj], rcv, False, nn, aa, A=Aval)
                s1 = D.diff(s_of_r, rsym)
                from symx import scalar as S_
                s1rc = S_.subst(s1, {D._atom_idx(rsym): rcv})
            U = U + pair_energy(model, r, eps[ti][tj], sig[ti][tj], rcv, shift, nn, aa, s1rc, A=Aval)
        coords = [pos[i][a] for i in range(N) for a in range(d)]
        grad = [D.diff(U, x) if not isinstance(U, int) else 0 for x in coords]
        Href = [[(D.diff(g, y) if not isinstance(g, int) else 0) for y in coords] for g in grad]
    else:
        import mpmath as mp
        mp.mp.dps = 30
        rows_f = [[mp.mpf(float(x)) for x in r_] for r_ in rows]

        def Ufun(*xs):
            tot = mp.mpf(0)
            P = [[xs[i * d + a] for a in range(d)] for i in range(N)]
            for (i, j), on in inter.items():
                if not on:
                    continue
                ti, tj = types[i] - 1, types[j] - 1
                v = [P[i][a] - P[j][a] for a in range(d)]
                # minimum image with the image numbers of the actual configuration (constant in a neighbourhood)
                v0 = [pos[i][a] - pos[j][a] for a in range(d)]
                f0 = C.frac_coords(v0, rows)
                for k in range(d):
                    if ppp[k]:
                        nk = float(np.rint(f0[k]))
                        v = [v[a] - nk * rows_f[k][a] for a in range(d)]
                r = mp.sqrt(sum(x * x for x in v))
                e_, s_, rc_ = mp.mpf(eps[ti][tj]), mp.mpf(sig[ti][tj]), mp.mpf(rcs[ti][tj])
                s1rc = None
                if shift and model != "hh":
                    s1rc = mp.diff(lambda x: pair_energy(model, x, e_, s_, rc_, False, nn, aa, A=mp.mpf(float(Aval))), rc_)
                tot += pair_energy(model, r, e_, s_, rc_, shift, nn, aa, s1rc, A=mp.mpf(float(Aval)))
            return tot
        x0 = [mp.mpf(pos[i][a]) for i in range(N) for a in range(d)]
        Href = [[None] * nd for _ in range(nd)]
        for p in range(nd):
            for q in range(p, nd):
                order = [0] * nd
                order[p] += 1
                order[q] += 1
                val = float(mp.diff(Ufun, tuple(x0), tuple(order))) if any(inter.values()) else 0.0
                Href[p][q] = Href[q][p] = val
    msq = [O.sqrt(mass[types[i]]) for i in range(N) for _ in range(d)]
    for p in range(nd):
        for q in range(nd):
            want = Href[p][q] / (msq[p] * msq[q])
            ctx.oblige(f"H[{p},{q}] = d2U/(sqrt(m) sqrt(m))", O.eq(Hm[p, q], want, rtol=1e-6, atol=1e-6))
            if q > p:
                ctx.oblige(f"symmetric[{p},{q}]", O.eq(Hm[p, q], Hm[q, p], rtol=1e-9, atol=1e-9))
    if all(ppp):
        for p in range(nd):
            for b in range(d):
                tot = sum(Hm[p, j * d + b] * msq[j * d + b] for j in range(N))
                ctx.oblige(f"translation mode[{p},{b}]", O.eq(tot, 0, atol=1e-6))
    # frequencies and participation ratios
    if sym:
        ev, vec = stub["ev"], stub["vec"]
        ctx.oblige("diagonalises the saved matrix", stub["M"] is Hm)
        for k in range(nd):
            lam = ev[k]
            om = csv["omega"].values[k]
            ctx.oblige(f"omega[{k}] = sqrt(lambda) for lambda > 0", O.Implies(O.gt(lam, 0), O.And(O.ge(om, 0), O.eq(om * om, lam))))
            ctx.oblige(f"omega[{k}] = lambda otherwise", O.Implies(O.le(lam, 0), O.eq(om, lam)))
            a = [sum(vec[i * d + c, k] ** 2 for c in range(d)) for i in range(N)]
            S1, Q = sum(a), sum(x * x for x in a)
            ctx.oblige(f"PR[{k}] formula", O.eq(csv["PR"].values[k], S1 * S1 / (N * Q)))
            As = [ctx.define(f"a{k}_{i}", a[i]) for i in range(N)]
            prem = []
            for i in range(N):
                f = O.ge(As[i], 0)
                ctx.assume(f)
                prem.append(f)
            one = O.eq(sum(As), 1)
            ctx.oblige(f"unit norm in particle norms[{k}]", O.eq(sum(a), 1))
            ctx.assume(one)
            prem.append(one)
            s_, q_ = sum(As), sum(x * x for x in As)
            ctx.oblige(f"0 < PR[{k}] <= 1", O.And(O.le(s_ * s_, N * q_), O.gt(s_ * s_, 0), O.gt(q_, 0)), using=prem)
    else:
        lam = np.linalg.eigvalsh(Hm)
        om = np.asarray(csv["omega"].values, dtype=float)
        scale = max(1.0, float(np.abs(Hm).max()))
        for k in range(nd):
            # compared in eigenvalue space: an eigenvalue that is zero up to rounding (1e-11) has a square root of 1e-5.5 with
            # either sign convention, which says nothing about the code (false alarm of the first thorough run)
            lam_code = om[k] * om[k] if om[k] > 0 else om[k]
            ctx.oblige(f"omega[{k}]", O.eq(lam_code, lam[k], rtol=1e-6, atol=1e-8 * scale))
            pr = float(csv["PR"].values[k])
            ctx.oblige(f"0 < PR[{k}] <= 1", 0 < pr <= 1 + 1e-9)


def cfg(tier, seed):
    out = []
    base2 = dict(d=2, N=2, types=[1, 2], cell="o", ppp=[0, 0])
    base3 = dict(d=3, N=2, types=[2, 1], cell="o", ppp=[0, 0, 0])
    for shift in (True, False):
        out.append(dict(base2, model="lj", shift=shift))
        out.append(dict(base2, model="ipl", shift=shift, n=12 if shift else 6))
    out.append(dict(base2, model="hh", shift=True, alpha="2"))
    out.append(dict(base2, model="hh", shift=False, alpha="5/2"))
    out.append(dict(base3, model="lj", shift=True))
    out.append(dict(base3, model="ipl", shift=True, n=6))
    out.append(dict(d=2, N=2, types=[1, 2], cell="o", ppp=[1, 1], model="lj", shift=True))
    out.append(dict(d=2, N=2, types=[1, 1], cell="t-", ppp=[1, 1], model="ipl", shift=False, n=12))
    out.append(dict(d=2, N=2, types=[2, 1], cell="o", ppp=[1, 0], model="lj", shift=True))          # mixed periodicity mask
    out.append(dict(d=2, N=2, types=[1, 2], cell="o", ppp=[0, 0], model="ipl", shift=True, n=6, mass_order="desc"))
    out.append(dict(d=2, N=2, types=[2, 1], cell="o", ppp=[0, 0], model="ipl", shift=True, n=12, A="sym"))      # prefactor A != 1
    if tier == "thorough":
        for model, kw in (("lj", {}), ("ipl", dict(n=12)), ("hh", dict(alpha="2"))):
            out.append(dict(d=2, N=3, types=[1, 2, 1], cell="o", ppp=[0, 0], model=model, shift=True, **kw))
        out.append(dict(d=3, N=2, types=[1, 2], cell="t+", ppp=[1, 1, 1], model="lj", shift=True))
    return out


HARNESSES = [H("hessian", h_hessian, cfg, timeout_ms=40000, validate_timeout_ms=5000)]
