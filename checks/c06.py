"""C06 relaxation functions equal their definitions averaged over all time origins (DESIGN C06)."""
import os
from fractions import Fraction

import numpy as np

from symx import ops as O
from symx.run import H
from checks import common as C
from checks.c04 import BOXES

FUNCS = ["PyMatterSim.dynamic.dynamics.Dynamics.__init__", "PyMatterSim.dynamic.dynamics.Dynamics.relaxation",
         "PyMatterSim.dynamic.dynamics.Dynamics.sq4", "PyMatterSim.dynamic.dynamics.LogDynamics.relaxation",
         "PyMatterSim.dynamic.dynamics.cage_relative", "PyMatterSim.utils.funcs.alpha2factor",
         "PyMatterSim.static.sq.conditional_sq"]
BOUNDS = {
    "quick": "F<=3 frames, N<=2 particles (N=3 for cage-relative), d in {2,3}; all positions, diameters, cutoff factor a, qconst and dt "
             "symbolic; slow and fast; with / without per-frame selections (concrete masks of constant size) and neighbour "
             "files (concrete topology); log variant; wrapped == unwrapped for concrete cells and integer images; S4 for F=2,3",
    "thorough": "as quick with F<=5, N<=4, d=3 with N=3",
}
STUBS = ["cos of a displacement phase -> structural (c,s) cache", "np.rint -> function symbol + lemma instances (wrapped run)",
         "S4: default wave vectors from the real choosewavevector; phases through the (c,s) cache"]
ASSUMPTIONS = ["floats modelled as reals", "evenly spaced timesteps for the linear variant", "mean squared displacement non-zero "
               "(alpha2 defined)", "selections are non-empty and of constant size (chi4 uses the size of the last selection)",
               "wrapped==unwrapped: every displacement below half a box length"]


def _alpha_fac(ctx, d):
    q = Fraction(3, 5) if d == 3 else Fraction(1, 2)
    return q if ctx.mode == "sym" else float(q)


def _mk(ctx, ru, d, N, F, types, steps, rows, tag="p"):
    poss, snaps = [], []
    for f in range(F):
        prow = [[ctx.real(f"{tag}{f}_{i}_{a}") for a in range(d)] for i in range(N)]
        poss.append(prow)
        snaps.append(C.snapshot(ctx, ru, steps[f], types, C.farr(ctx, prow), rows))
    return poss, ru.Snapshots(nsnapshots=F, snapshots=snaps)


def _topo_of(topo, f):
    """per-frame topology: a list of per-frame lists, or one list used for every frame"""
    return topo[f] if isinstance(topo[0][0], list) else topo


def _write_neighbors(ctx, F, topo):
    path = os.path.join(ctx.tmpdir(), "nb.dat")
    with open(path, "w") as fh:
        for f in range(F):
            fh.write("id cn neighborlist\n")
            for i, nb in enumerate(_topo_of(topo, f)):
                fh.write(" ".join([str(i + 1), str(len(nb))] + [str(j + 1) for j in nb]) + "\n")
    return path


def _reference_rows(ctx, d, N, F, poss, sig, a, qconst, mode, pairs_for_row, masks, topo, disp=None):
    """list over rows of dict(isf, Qt, chi4, msd, alpha2) from the definition"""
    sym = ctx.mode == "sym"
    out = []
    for k, pairs in enumerate(pairs_for_row):
        isf = qt = qt2 = r2 = r4 = 0
        nsel_last = N
        for (t0, t1) in pairs:
            dr = [[(poss[t1][i][c] - poss[t0][i][c]) if disp is None else disp(t0, t1, i, c) for c in range(d)] for i in range(N)]
            if topo is not None:
                rel = []
                for i in range(N):
                    nb = _topo_of(topo, t0)[i]       # neighbour list of the origin frame
                    rel.append([dr[i][c] - sum(dr[j][c] for j in nb) / len(nb) for c in range(d)])
                dr = rel
            sel = [i for i in range(N) if (masks is None or masks[t0][i])]
            nsel_last = len(sel)
            cs = 0
            q = 0
            m2 = 0
            m4 = 0
            for i in sel:
                for c in range(d):
                    co, _ = O.cos_sin(dr[i][c] * (qconst / sig[i]))
                    cs = cs + co
                dist = sum(dr[i][c] * dr[i][c] for c in range(d))
                cut = (a * sig[i]) * (a * sig[i])
                cond = O.lt(dist, cut) if mode == "slow" else O.gt(dist, cut)
                q = q + (O.If(cond, 1, 0) if sym and not isinstance(cond, bool) else (1 if cond else 0))
                m2 = m2 + dist
                m4 = m4 + dist * dist
            n = len(sel)
            isf = isf + cs / (n * d)
            qt = qt + q / n
            qt2 = qt2 + (q / n) * (q / n)
            r2 = r2 + m2 / n
            r4 = r4 + m4 / n
        P = len(pairs)
        isf, qt, qt2, r2, r4 = isf / P, qt / P, qt2 / P, r2 / P, r4 / P
        out.append(dict(isf=isf, Qt=qt, chi4=(qt2 - qt * qt) * nsel_last, msd=r2, r2=r2, r4=r4))
    return out


def _check_table(ctx, d, res, rows_ref, steps, dt, log=False):
    ctx.oblige("shape", list(res.columns) == "t isf Qt X4_Qt msd alpha2".split() and len(res) == len(rows_ref))
    if len(res) != len(rows_ref):
        return
    for c in res.columns:
        ctx.output(c, np.asarray(res[c].values))
    for k, ref in enumerate(rows_ref):
        ctx.assume(O.Not(O.eq(ref["r2"], 0)) if ctx.mode == "sym" else abs(ref["r2"]) > 1e-12)
        ctx.oblige(f"t[{k}]", O.eq(res["t"].values[k], (steps[k + 1] - steps[0]) * dt))
        ctx.oblige(f"isf[{k}]", O.eq(res["isf"].values[k], ref["isf"]))
        ctx.oblige(f"Qt[{k}]", O.eq(res["Qt"].values[k], ref["Qt"]))
        ctx.oblige(f"X4_Qt[{k}]", O.eq(res["X4_Qt"].values[k], 0 if log else ref["chi4"]))
        ctx.oblige(f"msd[{k}]", O.eq(res["msd"].values[k], ref["msd"]))
        ctx.oblige(f"alpha2[{k}]", O.eq(res["alpha2"].values[k], _alpha_fac(ctx, d) * ref["r4"] / (ref["r2"] * ref["r2"]) - 1))


def h_relax(ctx, d, N, F, mode, types, masks=None, topo=None, log=False, steps=None):
    ctx.covers(*FUNCS[:2], FUNCS[3], FUNCS[4], FUNCS[5])
    dyn = ctx.repo("PyMatterSim.dynamic.dynamics")
    ru = ctx.repo("PyMatterSim.reader.reader_utils")
    steps = steps or [100 * (f + 1) for f in range(F)]
    rows = [[C.const(ctx, 10) if a == b else 0 for b in range(d)] for a in range(d)]
    poss, S = _mk(ctx, ru, d, N, F, types, steps, rows)
    K = max(types)
    dia = {t: ctx.real(f"sigma{t}", positive=True) for t in range(1, K + 1)}
    a = ctx.real("a", positive=True)
    qconst = ctx.real("qconst", positive=True)
    dt = ctx.real("dt", positive=True)
    sig = [dia[t] for t in types]
    nbfile = _write_neighbors(ctx, F, topo) if topo is not None else ""
    cls = dyn.LogDynamics if log else dyn.Dynamics
    obj = cls(xu_snapshots=S, dt=dt, ppp=np.array([0] * d), diameters=dia, a=a, cal_type=mode, neighborfile=nbfile)
    cond = None
    if masks is not None:
        cond = np.array(masks[0], dtype=bool) if log else np.array(masks, dtype=bool)
    res = obj.relaxation(qconst=qconst, condition=cond)
    if log:
        pairs = [[(0, n)] for n in range(1, F)]
        mref = [masks[0]] * F if masks is not None else None
    else:
        pairs = [[(n - nn, n) for n in range(nn, F)] for nn in range(1, F)]
        mref = masks
    ref = _reference_rows(ctx, d, N, F, poss, sig, a, qconst, mode, pairs, mref, topo)
    _check_table(ctx, d, res, ref, steps, dt, log=log)


def h_wrap(ctx, d, N, F, box, images, mode):
    """x-only run on xu - K*L (integer images K) with every displacement below half a box equals the xu run"""
    ctx.covers(*FUNCS[:2], "PyMatterSim.utils.pbc.remove_pbc")
    dyn = ctx.repo("PyMatterSim.dynamic.dynamics")
    ru = ctx.repo("PyMatterSim.reader.reader_utils")
    sym = ctx.mode == "sym"
    steps = [10 * (f + 1) for f in range(F)]
    L = [C.const(ctx, x) for x in BOXES[d][box]]
    rows = [[L[a] if a == b else 0 for b in range(d)] for a in range(d)]
    types = [1] * N
    poss, Sxu = _mk(ctx, ru, d, N, F, types, steps, rows)
    half = Fraction(1, 2) if sym else 0.5
    for f0 in range(F):
        for f1 in range(f0 + 1, F):
            for i in range(N):
                for c in range(d):
                    u = (poss[f1][i][c] - poss[f0][i][c]) / L[c]
                    ctx.assume(O.And(O.lt(u, half), O.gt(u, -half)))
                    if sym:
                        O.rint(u)            # the reference's rint symbol for the true fractional displacement (lemma L3 gives 0)
    for lag in range(1, F):     # mean squared displacement non-zero at every lag (alpha2 defined)
        m = sum((poss[f + lag][i][c] - poss[f][i][c]) ** 2 for f in range(F - lag) for i in range(N) for c in range(d))
        ctx.assume(O.Not(O.eq(m, 0)) if sym else abs(m) > 1e-12)
    wrapped, snaps = [], []
    for f in range(F):
        prow = [[poss[f][i][c] - images[f][i][c] * L[c] for c in range(d)] for i in range(N)]
        wrapped.append(prow)
        snaps.append(C.snapshot(ctx, ru, steps[f], types, C.farr(ctx, prow), rows))
    Sx = ru.Snapshots(nsnapshots=F, snapshots=snaps)
    dia = {1: ctx.real("sigma1", positive=True)}
    a = ctx.real("a", positive=True)
    qconst = ctx.real("qconst", positive=True)
    dt = ctx.real("dt", positive=True)
    r_xu = dyn.Dynamics(xu_snapshots=Sxu, dt=dt, ppp=np.array([0] * d), diameters=dia, a=a, cal_type=mode).relaxation(qconst=qconst)
    r_x = dyn.Dynamics(x_snapshots=Sx, dt=dt, ppp=np.array([1] * d), diameters=dia, a=a, cal_type=mode).relaxation(qconst=qconst)
    if sym:
        # lemma: every image number the code rounds to is the integer image difference (decided, then kept)
        for f0 in range(F):
            for f1 in range(f0 + 1, F):
                for i in range(N):
                    for c in range(d):
                        dk = images[f1][i][c] - images[f0][i][c]
                        u = (poss[f1][i][c] - poss[f0][i][c]) / L[c]
                        r = ctx.find_round("rint", u - dk)
                        if r is not None:
                            ctx.oblige(f"image number[{f0},{f1},{i},{c}]", O.eq(r, -dk), then_assume=True)
    for c in r_xu.columns:
        ctx.output("xu_" + c, np.asarray(r_xu[c].values))
        for k in range(len(r_xu)):
            ctx.oblige(f"wrapped == unwrapped {c}[{k}]", O.eq(r_x[c].values[k], r_xu[c].values[k], atol=1e-7))


def h_sq4(ctx, d, N, F, box, lag, mode):
    """four-point structure factor = structure factor of the slow (fast) subset averaged over origins"""
    ctx.covers(FUNCS[2], FUNCS[6])
    dyn = ctx.repo("PyMatterSim.dynamic.dynamics")
    ru = ctx.repo("PyMatterSim.reader.reader_utils")
    wv = ctx.repo("PyMatterSim.utils.wavevector")
    sym = ctx.mode == "sym"
    steps = [10 * (f + 1) for f in range(F)]
    L = [C.const(ctx, x) for x in BOXES[d][box]]
    rows = [[L[a] if a == b else 0 for b in range(d)] for a in range(d)]
    types = [1] * N
    poss, S = _mk(ctx, ru, d, N, F, types, steps, rows)
    dia = {1: ctx.real("sigma1", positive=True)}
    a = ctx.real("a", positive=True)
    dt = ctx.real("dt", positive=True)
    pi_ = O.pi(ctx)
    Lmaxq = C.const(ctx, max(Fraction(x) for x in BOXES[d][box]))
    qr = ctx.real("qrange", positive=True)
    ctx.assume(O.And(O.ge(qr * Lmaxq, 2 * pi_), O.lt(qr * Lmaxq, 3 * pi_)))       # numofq = 2
    obj = dyn.Dynamics(xu_snapshots=S, dt=dt, ppp=np.array([0] * d), diameters=dia, a=a, cal_type=mode)
    t = lag * (steps[1] - steps[0]) * dt
    for n0 in range(F - lag):       # every origin has at least one mobile particle (0/0 otherwise: outside the claim)
        conds = []
        for i in range(N):
            dist = sum((poss[n0 + lag][i][c] - poss[n0][i][c]) ** 2 for c in range(d))
            cut = (a * dia[1]) * (a * dia[1])
            conds.append(O.lt(dist, cut) if mode == "slow" else O.gt(dist, cut))
        ctx.assume(O.Or(*conds))
    res = obj.sq4(t=t, qrange=qr)
    qv = [tuple(int(x) for x in row) for row in wv.choosewavevector(d, 2, False)]
    ctx.oblige("columns", list(res.columns) == ["q", "Sq"])
    ctx.output("Sq", np.asarray(res["Sq"].values))

    def q2(n):
        return sum((Fraction(int(n[c])) / Fraction(BOXES[d][box][c])) ** 2 for c in range(d))
    groups = {}
    for n in qv:
        groups.setdefault(q2(n), []).append(n)
    keys = sorted(groups)
    ctx.oblige("rows", len(res) == len(keys))
    if len(res) != len(keys):
        return
    origins = list(range(F - lag))
    for gi, k2 in enumerate(keys):
        if gi:
            pass
        tot = 0
        for n0 in origins:
            # the path has decided which particles are slow/fast at this origin: read it from the definition
            for nvec in groups[k2]:
                re = im = 0
                cnt = 0
                for i in range(N):
                    dist = sum((poss[n0 + lag][i][c] - poss[n0][i][c]) ** 2 for c in range(d))
                    cut = (a * dia[1]) * (a * dia[1])
                    cond = O.lt(dist, cut) if mode == "slow" else O.gt(dist, cut)
                    mob = bool(cond)            # symbolic run: a decision (already taken by the code on this path)
                    if mob:
                        cnt += 1
                        th = 0
                        for c in range(d):
                            th = th + (2 * pi_ * int(nvec[c]) / L[c]) * poss[n0][i][c]
                        co, si = O.cos_sin(th)
                        re, im = re + co, im - si
                if cnt:
                    tot = tot + (re * re + im * im) / cnt / len(groups[k2])
                else:
                    tot = None
                    break
            if tot is None:
                break
        if tot is None:
            continue        # an origin without mobile particles: 0/0, outside the claim
        ctx.oblige(f"S4[{gi}]", O.eq(res["Sq"].values[gi], tot / len(origins), atol=1e-6))


def cfg_relax(tier, seed):
    out = []
    F = 3 if tier == "quick" else 4
    for d in (2, 3):
        for mode in ("slow", "fast"):
            out.append(dict(d=d, N=2, F=F, mode=mode, types=[1, 2]))
        out.append(dict(d=d, N=2, F=F, mode="slow", types=[1, 2], log=True, steps=[1, 3, 7, 20][:F]))
    # selections (constant size), per frame
    out.append(dict(d=2, N=3, F=3, mode="slow", types=[1, 2, 1], masks=[[True, False, True], [False, True, True], [True, True, False]]))
    out.append(dict(d=2, N=3, F=3, mode="fast", types=[1, 1, 2], masks=[[True, False, False]] * 3, log=True, steps=[2, 5, 9]))
    # cage-relative with a neighbour file
    out.append(dict(d=2, N=3, F=3, mode="slow", types=[1, 1, 1],
                    topo=[[[1, 2], [0], [0, 1]], [[2], [0, 2], [1]], [[1], [2], [0]]]))
    out.append(dict(d=2, N=3, F=3, mode="slow", types=[1, 1, 1], topo=[[1], [2], [0, 1]], log=True, steps=[1, 2, 4]))
    if tier == "thorough":
        out.append(dict(d=2, N=3, F=4, mode="slow", types=[1, 2, 2]))
        out.append(dict(d=3, N=3, F=3, mode="fast", types=[2, 1, 1], topo=[[1, 2], [0, 2], [1]]))
        out.append(dict(d=2, N=3, F=5, mode="fast", types=[1, 2, 1]))
        out.append(dict(d=3, N=3, F=4, mode="slow", types=[1, 1, 2]))
        out.append(dict(d=2, N=4, F=3, mode="slow", types=[1, 2, 2, 1], topo=[[1, 2, 3], [0], [3, 0], [1]]))
        out.append(dict(d=2, N=3, F=4, mode="slow", types=[1, 2, 1], log=True, steps=[3, 4, 9, 30]))
        out.append(dict(d=2, N=4, F=3, mode="fast", types=[1, 1, 2, 2], masks=[[True, True, False, False], [False, True, True, False], [True, False, False, True]]))
    return out


def cfg_wrap(tier, seed):
    out = []
    out.append(dict(d=2, N=1, F=3, box=0, images=[[[0, 0]], [[1, -1]], [[2, 0]]], mode="slow"))
    out.append(dict(d=2, N=2, F=2, box=1, images=[[[0, 1], [-1, 0]], [[1, 1], [0, 2]]], mode="fast"))
    out.append(dict(d=3, N=1, F=2, box=0, images=[[[1, 0, -1]], [[0, 2, 0]]], mode="slow"))
    return out


def cfg_sq4(tier, seed):
    out = [dict(d=2, N=2, F=2, box=0, lag=1, mode="slow"), dict(d=2, N=2, F=3, box=1, lag=1, mode="fast"),
           dict(d=2, N=2, F=3, box=0, lag=2, mode="slow")]
    if tier == "thorough":
        out.append(dict(d=3, N=2, F=2, box=0, lag=1, mode="slow"))
    return out


HARNESSES = [H("relaxation", h_relax, cfg_relax, timeout_ms=30000),
             H("wrapped_vs_unwrapped", h_wrap, cfg_wrap, timeout_ms=30000, rint_lemmas=("L1", "L2", "L3", "L4")),
             H("sq4", h_sq4, cfg_sq4, timeout_ms=30000, validate_atol=1e-7)]
