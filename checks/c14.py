"""C14 time correlation equals the origin-averaged normalised autocorrelation (DESIGN C14)."""
from fractions import Fraction

import numpy as np

from symx import ops as O
from symx.run import H
from checks import common as C

FUNCS = ["PyMatterSim.dynamic.time_corr.time_correlation"]
BOUNDS = {
    "quick": "series of shape (T,N), (T,N,2), (T,N,2,2), real and complex, all values symbolic; T<=3, N<=2; timestep patterns: "
             "even, uneven, single frame; symbolic dt",
    "thorough": "as quick with T<=7 and N<=4, three timestep patterns (even, uneven, even except for the last gap)",
}
STUBS = []
ASSUMPTIONS = ["floats modelled as reals", "lag-zero value non-zero (normalisation defined)", "timesteps concrete (the pattern "
               "selects linear/log style), dt symbolic"]


def _series(ctx, T, N, rank, cplx):
    shape = {0: (T, N), 1: (T, N, 2), 2: (T, N, 2, 2)}[rank]
    re = ctx.array("a", shape)
    if not cplx:
        return re, re, None
    im = ctx.array("b", shape)
    if ctx.mode == "sym":
        from symx.scalar import SC
        from symx.npf import SArr
        out = np.empty(shape, dtype=object)
        for idx in np.ndindex(*shape):
            out[idx] = SC(re[idx], im[idx])
        out = out.view(SArr)
        out._dt = np.dtype(complex)
        return out, re, im
    return re + 1j * im, re, im


def h_tc(ctx, T, N, rank, cplx, steps, dt_literal=None):
    ctx.covers(*FUNCS)
    tc = ctx.repo("PyMatterSim.dynamic.time_corr")
    ru = ctx.repo("PyMatterSim.reader.reader_utils")
    cond, re, im = _series(ctx, T, N, rank, cplx)
    if dt_literal is None:
        dt = ctx.real("dt", positive=True)
    else:
        # a documented decimal time step (default 0.002): the exact rational in the symbolic run, the double in the replay -
        # the one place where this check looks at a float-level effect (evenly spaced integer timesteps stay evenly spaced)
        dt = Fraction(dt_literal) if ctx.mode == "sym" else float(Fraction(dt_literal))
    rows = [[1, 0], [0, 1]]
    snaps = [C.snapshot(ctx, ru, steps[t], [1] * N, C.farr(ctx, [[0, 0]] * N), rows) for t in range(T)]
    S = ru.Snapshots(nsnapshots=T, snapshots=snaps)
    even = len(set(b - a for a, b in zip(steps, steps[1:]))) == 1

    def prod(t1, t0):
        """Re sum_i A_i(t1) . conj A_i(t0)  (dot product for vectors, trace of the matrix product for tensors)"""
        tot = 0
        for i in range(N):
            if rank == 0:
                idxs = [((t1, i), (t0, i))]
            elif rank == 1:
                idxs = [((t1, i, a), (t0, i, a)) for a in range(2)]
            else:
                idxs = [((t1, i, a, b), (t0, i, b, a)) for a in range(2) for b in range(2)]
            for x, y in idxs:
                tot = tot + re[x] * re[y]
                if cplx:
                    tot = tot + im[x] * im[y]
        return tot

    c0 = (sum(prod(n, n) for n in range(T)) / T) if even else prod(0, 0)
    ctx.assume(O.Not(O.eq(c0, 0)) if ctx.mode == "sym" else abs(c0) > 1e-9)
    res = tc.time_correlation(S, cond, dt=dt)
    ctx.output("t", np.asarray(res["t"].values))
    ctx.output("c", np.asarray(res["time_corr"].values))
    ctx.oblige("rows", len(res) == T and list(res.columns) == ["t", "time_corr"])
    for k in range(T):
        ctx.oblige(f"t[{k}]", O.eq(res["t"].values[k], (steps[k] - steps[0]) * dt))
        if even:
            num = sum(prod(n + k, n) for n in range(T - k)) / (T - k)
        else:
            num = prod(k, 0)
        ctx.oblige(f"C[{k}]", O.eq(res["time_corr"].values[k], num / c0))
    ctx.oblige("C[0] = 1", O.eq(res["time_corr"].values[0], 1))


def cfg(tier, seed):
    out = []
    Ts = (1, 2, 3) if tier == "quick" else (1, 2, 3, 4, 5, 6, 7)
    Ns = (2,) if tier == "quick" else (2, 3, 4)
    for rank in (0, 1, 2):
        for cplx in (False, True):
            for T in Ts:
                pats = [[10 * (t + 1) for t in range(T)]]
                if T >= 3:
                    pats.append([5, 7, 11, 19, 35, 67, 131][:T])
                if T >= 4 and tier == "thorough":
                    pats.append([0, 100, 200, 300, 400, 500, 700][:T - 1] + [1000])      # even except for the last gap
                for steps in pats:
                    for N in Ns:
                        out.append(dict(T=T, N=N, rank=rank, cplx=cplx, steps=steps))
    # documented decimal time steps on evenly spaced trajectories
    for dtl, steps in (("1/500", [100 + 5 * t for t in range(6)]), ("1/500", list(range(10))), ("1/200", [2 * t for t in range(8)]),
                       ("1/100", [3 * t for t in range(7)])):
        out.append(dict(T=len(steps), N=1, rank=0, cplx=False, steps=steps, dt_literal=dtl))
    return out


HARNESSES = [H("time_correlation", h_tc, cfg)]
