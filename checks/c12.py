"""C12 pair-potential derivatives are the derivatives of the documented potentials (DESIGN C12)."""
from fractions import Fraction

from symx import ops as O
from symx.run import H

FUNCS = ["PyMatterSim.static.hessians.PairInteractions.lennard_jones",
         "PyMatterSim.static.hessians.PairInteractions.inverse_power_law",
         "PyMatterSim.static.hessians.PairInteractions.harmonic_hertz",
         "PyMatterSim.static.hessians.PairInteractions.caller"]
BOUNDS = {
    "quick": "all real r, epsilon, sigma, r_c > 0, A real; LJ; IPL n in {4,6,10,12,18} and symbolic real n; "
             "harmonic/Hertz alpha in {2, 5/2, 3} and symbolic real alpha (r < sigma); both shift settings; "
             "direct method calls and the caller() selector",
    "thorough": "as quick plus IPL n in 1..24 and alpha in {2,5/2,3,7/2,4,9/2,5}",
}
STUBS = ["u**e with symbolic e -> one positive power symbol per (u, e mod 1) (needs u>0, asserted)"]
ASSUMPTIONS = ["floats modelled as reals", "r, epsilon, sigma, r_c > 0", "harmonic/Hertz: 0 < r < sigma (real power)",
               "derivative reference: term differentiation of the documented s(r) (symbolic run) / mpmath numerical "
               "differentiation at 30 digits (concrete replay)"]


def documented(model, r, eps, sig, A, n, alpha):
    if model == "lj":
        return 4 * eps * ((sig / r) ** 12 - (sig / r) ** 6)
    if model == "ipl":
        return A * eps * (sig / r) ** n
    return eps / alpha * (1 - r / sig) ** alpha


def _num(ctx, v):
    """exponent parameter: exact rational in the symbolic run, float in the concrete one"""
    if v == "sym":
        return None
    return Fraction(v) if ctx.mode == "sym" else float(Fraction(v))


def h_pair(ctx, model, shift, n=None, alpha=None, via="method"):
    ctx.covers(*FUNCS)
    hs = ctx.repo("PyMatterSim.static.hessians")
    r = ctx.real("r", positive=True)
    eps = ctx.real("eps", positive=True)
    sig = ctx.real("sig", positive=True)
    rc = ctx.real("rc", positive=True)
    A = ctx.real("A") if model == "ipl" else 1
    nn = aa = None
    if model == "ipl":
        nn = ctx.real("n", positive=True) if n == "sym" else _num(ctx, n)
    if model == "hh":
        aa = ctx.real("alpha", positive=True) if alpha == "sym" else _num(ctx, alpha)
        if ctx.mode == "sym":
            ctx.assume(O.lt(r, sig))
            if alpha == "sym":
                ctx.assume(O.gt(aa, 1))
        else:
            ctx.assume(r < sig)
    pi_ = hs.PairInteractions(r=r, epsilon=eps, sigma=sig, r_c=rc, shift=shift)
    if via == "caller":
        params = hs.InteractionParams(
            model_name={"lj": hs.ModelName.lennard_jones, "ipl": hs.ModelName.inverse_power_law,
                        "hh": hs.ModelName.harmonic_hertz}[model],
            ipl_n=nn if nn is not None else 0, ipl_A=A if model == "ipl" else 0,
            harmonic_hertz_alpha=aa if aa is not None else 0)
        s1, s1rc, s2 = pi_.caller(params)
    elif model == "lj":
        s1, s1rc, s2 = pi_.lennard_jones()
    elif model == "ipl":
        s1, s1rc, s2 = pi_.inverse_power_law(n=nn, A=A)
    else:
        s1, s1rc, s2 = pi_.harmonic_hertz(alpha=aa)
    ctx.output("s1", s1)
    ctx.output("s1rc", s1rc)
    ctx.output("s2", s2)
    if ctx.mode == "sym":
        from symx import diff as D
        s = documented(model, r, eps, sig, A, nn, aa)
        d1 = D.diff(s, r)
        d2 = D.diff(d1, r)
        src = documented(model, rc, eps, sig, A, nn, aa)
        d1c = D.diff(src, rc)
    else:
        import mpmath as mp
        mp.mp.dps = 40
        f = lambda x: documented(model, x, mp.mpf(eps), mp.mpf(sig), mp.mpf(A), mp.mpf(nn) if nn is not None else None,
                                 mp.mpf(aa) if aa is not None else None)
        d1 = float(mp.diff(f, mp.mpf(r), 1))
        d2 = float(mp.diff(f, mp.mpf(r), 2))
        d1c = float(mp.diff(f, mp.mpf(rc), 1)) if (model != "hh" or rc < sig) else 0.0
    ctx.oblige("s1 = ds/dr", O.eq(s1, d1))
    ctx.oblige("s2 = d2s/dr2", O.eq(s2, d2))
    if model == "hh":
        # documented: s'(r_c) = 0 (the documented cut-off of the harmonic/Hertz interaction is r_c = sigma)
        ctx.oblige("s1rc = 0 (documented)", O.eq(s1rc, 0))
    elif shift:
        ctx.oblige("s1rc = ds/dr at r_c", O.eq(s1rc, d1c))
    else:
        ctx.oblige("s1rc = 0 without shift", O.eq(s1rc, 0))


def h_hh_cut(ctx, alpha):
    """harmonic/Hertz: the documented s'(r_c)=0 agrees with s' at the documented cut-off r_c = sigma (alpha > 1)"""
    ctx.covers(FUNCS[2])
    hs = ctx.repo("PyMatterSim.static.hessians")
    eps = ctx.real("eps", positive=True)
    sig = ctx.real("sig", positive=True)
    aa = _num(ctx, alpha)
    pi_ = hs.PairInteractions(r=sig, epsilon=eps, sigma=sig, r_c=sig, shift=True)
    s1, s1rc, s2 = pi_.harmonic_hertz(alpha=aa)
    ctx.output("s1", s1)
    ctx.oblige("s1(r=sigma) = s1rc", O.eq(s1, s1rc))


def h_sequence(ctx, order, shift):
    """one PairInteractions object queried for several models in sequence: every answer equals that of a fresh object
    (the selector and the cut-off term must not depend on what was asked before)"""
    ctx.covers(*FUNCS)
    hs = ctx.repo("PyMatterSim.static.hessians")
    r = ctx.real("r", positive=True)
    eps = ctx.real("eps", positive=True)
    sig = ctx.real("sig", positive=True)
    rc = ctx.real("rc", positive=True)
    A = ctx.real("A")
    n = Fraction(12) if ctx.mode == "sym" else 12.0
    al = Fraction(5, 2) if ctx.mode == "sym" else 2.5
    ctx.assume(O.lt(r, sig) if ctx.mode == "sym" else r < sig)

    def ask(obj, m, via):
        if via == "caller":
            params = hs.InteractionParams(
                model_name={"lj": hs.ModelName.lennard_jones, "ipl": hs.ModelName.inverse_power_law, "hh": hs.ModelName.harmonic_hertz}[m],
                ipl_n=n, ipl_A=A, harmonic_hertz_alpha=al)
            return obj.caller(params)
        if m == "lj":
            return obj.lennard_jones()
        if m == "ipl":
            return obj.inverse_power_law(n=n, A=A)
        return obj.harmonic_hertz(alpha=al)
    shared = hs.PairInteractions(r=r, epsilon=eps, sigma=sig, r_c=rc, shift=shift)
    for k, m in enumerate(order):
        via = "method" if k % 2 == 0 else "caller"
        got = ask(shared, m, via)
        want = ask(hs.PairInteractions(r=r, epsilon=eps, sigma=sig, r_c=rc, shift=shift), m, "method")
        ctx.output(f"{k}:{m}", list(got))
        for nm, a, b in zip(("s1", "s1rc", "s2"), got, want):
            ctx.oblige(f"step {k} ({m} after {'+'.join(order[:k]) or 'nothing'}): {nm} as from a fresh object", O.eq(a, b))
    # inputs of the object are not altered by the queries
    ctx.oblige("object parameters unchanged", O.And(O.eq(shared.r, r), O.eq(shared.epsilon, eps), O.eq(shared.sigma, sig),
                                                   O.eq(shared.r_c, rc)) & (shared.shift == shift)
               if ctx.mode == "sym" else (shared.r == r and shared.epsilon == eps and shared.sigma == sig and shared.r_c == rc
                                          and shared.shift == shift))


def cfg_seq(tier, seed):
    from itertools import permutations
    out = []
    for order in permutations(("lj", "ipl", "hh")):
        for shift in (True, False):
            out.append(dict(order=list(order), shift=shift))
    return out


def cfg_pair(tier, seed):
    out = []
    ns = [4, 6, 10, 12, 18, "sym"] if tier == "quick" else list(range(1, 25)) + ["sym"]
    als = ["2", "5/2", "3", "sym"] if tier == "quick" else ["2", "5/2", "3", "7/2", "4", "9/2", "5", "sym"]
    for shift in (True, False):
        for via in ("method", "caller"):
            out.append(dict(model="lj", shift=shift, via=via))
            for n in ns:
                out.append(dict(model="ipl", shift=shift, n=n, via=via))
            for a in als:
                out.append(dict(model="hh", shift=shift, alpha=a, via=via))
    return out


def cfg_cut(tier, seed):
    return [dict(alpha=a) for a in ("2", "5/2", "3")]


HARNESSES = [H("pair_derivatives", h_pair, cfg_pair), H("hertz_cutoff", h_hh_cut, cfg_cut), H("query_sequence", h_sequence, cfg_seq)]
