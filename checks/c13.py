"""C13 conditional g(r) and S(q) equal weighted definitions and reduce to partials (DESIGN C13)."""
from fractions import Fraction
from itertools import product

import json

import numpy as np

from symx import ops as O
from symx.run import H
from checks import common as C
from checks.c03 import shell_volume
from checks.c04 import BOXES

FUNCS = ["PyMatterSim.static.gr.conditional_gr", "PyMatterSim.static.sq.conditional_sq", "PyMatterSim.static.gr.gr",
         "PyMatterSim.static.sq.sq"]
BOUNDS = {
    "quick": "N=3, d=2; g(r): symbolic orthogonal box, bin width with B in {1,2}, condition kinds bool (all non-empty selections), "
             "float, complex, vector, tensor with all values symbolic; S(q): concrete boxes, Q<=3 wave vectors, kinds bool, float, "
             "vector; reductions to g_aa / S_aa, totals for A=1, vector = sum of components, gA_norm",
    "thorough": "as quick plus d=3, triclinic concrete cells (both tilt signs, mixed mask) for g(r), N=4 (two particles concrete) for every field kind, B<=3, N<=5 for S(q)",
}
STUBS = ["np.histogram -> documented semantics", "cos/sin -> structural cache", "DataFrame.round(8) -> identity"]
ASSUMPTIONS = ["floats modelled as reals", "non-empty selections", "non-constant A for gA_norm (denominator non-zero)"]


def _cond(ctx, kind, N, d, sel=None):
    """returns (array for the code, accessor w(i,j) -> Re weight, per-particle values)"""
    sym = ctx.mode == "sym"
    if kind == "bool":
        arr = np.array(sel, dtype=bool)
        return arr, (lambda i, j: 1 if (sel[i] and sel[j]) else 0), None
    if kind == "float":
        a = ctx.array("A", (N,))
        return a, (lambda i, j: a[i] * a[j]), a
    if kind == "complex":
        re, im = ctx.array("A", (N,)), ctx.array("B", (N,))
        if sym:
            from symx.scalar import SC
            from symx.npf import declared
            out = np.empty((N,), dtype=object)
            for i in range(N):
                out[i] = SC(re[i], im[i])
            arr = declared(out, complex)
        else:
            arr = re + 1j * im
        return arr, (lambda i, j: re[i] * re[j] + im[i] * im[j]), (re, im)
    if kind == "vector":
        a = ctx.array("A", (N, d))
        return a, (lambda i, j: sum(a[i, c] * a[j, c] for c in range(d))), a
    if kind == "tensor":
        raw = ctx.array("A", (N, d, d))
        # symmetric tensors
        if sym:
            a = raw.copy()
        else:
            a = raw.copy()
        for i in range(N):
            for p in range(d):
                for q in range(p):
                    a[i, p, q] = a[i, q, p]
        return a, (lambda i, j: sum(a[i, p, q] * a[j, q, p] for p in range(d) for q in range(d))), a
    raise ValueError(kind)


def _geometry(ctx, ru, d, N, cell, Bmax, fixed=0):
    rows = C.make_cell(ctx, d, cell)
    L = [rows[a][a] for a in range(d)]
    delta = ctx.real("delta", positive=True)
    if ctx.mode == "conc" and not delta > 0:
        delta = 1.0
    Lmin = L[0]
    for a in range(1, d):
        Lmin = O.If(O.le(L[a], Lmin), L[a], Lmin)
    ctx.assume(O.And(O.ge(Lmin, 2 * delta), O.lt(Lmin, 2 * delta * (Bmax + 1))))
    fixed_pos = [["1/3", "1/5", "1/7"], ["-2/5", "3/4", "1/2"]]
    prow = [[(C.const(ctx, fixed_pos[i][a]) if i < fixed else ctx.real(f"p{i}_{a}")) for a in range(d)] for i in range(N)]
    return rows, L, delta, prow


def h_cgr(ctx, d, N, kind, cell, ppp, Bmax, sel=None, types=None, fixed=0):
    ctx.covers(FUNCS[0], FUNCS[2])
    g = ctx.repo("PyMatterSim.static.gr")
    ru = ctx.repo("PyMatterSim.reader.reader_utils")
    sym = ctx.mode == "sym"
    rows, L, delta, prow = _geometry(ctx, ru, d, N, cell, Bmax, fixed)
    types = types or [1] * N
    snap = C.snapshot(ctx, ru, 0, types, C.farr(ctx, prow), rows)
    arr, w, vals = _cond(ctx, kind, N, d, sel)
    if kind == "float":
        m1 = sum(vals[i] for i in range(N)) / N
        m2 = sum(vals[i] * vals[i] for i in range(N)) / N
        ctx.assume(O.Not(O.eq(m2 - m1 * m1, 0)) if sym else abs(m2 - m1 * m1) > 1e-9)     # non-constant A
    ctype = {"vector": "vector", "tensor": "tensor"}.get(kind)
    res = g.conditional_gr(snap, condition=arr, conditiontype=ctype, ppp=np.array(ppp), rdelta=delta)
    B = len(res)
    ctx.oblige("bins in range", 1 <= B <= Bmax)
    ctx.oblige("columns", list(res.columns) == (["r", "gr", "gA", "gA_norm"] if kind == "float" else ["r", "gr", "gA"]))
    for c in res.columns:
        ctx.output(c, np.asarray(res[c].values))
    V = 1
    for a in range(d):
        V = V * L[a]
    Na = sum(1 for s in sel if s) if kind == "bool" else N
    D2 = [[C.norm2(C.min_image(ctx, [prow[j][a] - prow[i][a] for a in range(d)], rows, ppp)) if i != j else None
           for j in range(N)] for i in range(N)]
    other = None
    if kind == "bool" and types and max(types) > 1:
        # the same snapshot through the g(r) class: the selected species' partial column
        other = g.gr(ru.Snapshots(nsnapshots=1, snapshots=[snap]), ppp=np.array(ppp), rdelta=delta).getresults()
    for k in range(B):
        lo, hi = k * delta, (k + 1) * delta
        shell = shell_volume(ctx, d, lo, hi)

        def inbin(x2):
            upper = O.le(x2, hi * hi) if k == B - 1 else O.lt(x2, hi * hi)
            return O.And(O.ge(x2, lo * lo), upper)

        def wsum(weight):
            tot = 0
            for i in range(N):
                for j in range(N):
                    if i != j:
                        c = inbin(D2[i][j])
                        ind = O.If(c, 1, 0) if sym and not isinstance(c, bool) else (1 if c else 0)
                        tot = tot + ind * weight(i, j)
            return tot
        ctx.oblige(f"r[{k}]", O.eq(res["r"].values[k], (lo + hi) / 2))
        ctx.oblige(f"gr[{k}]", O.eq(res["gr"].values[k], V / (N * N) * wsum(lambda i, j: 1) / shell))
        ctx.oblige(f"gA[{k}]", O.eq(res["gA"].values[k], V / (Na * Na) * wsum(w) / shell))
        if kind == "float":
            mean = sum(vals[i] for i in range(N)) / N
            mean2 = sum(vals[i] * vals[i] for i in range(N)) / N
            ctx.oblige(f"gA_norm[{k}]", O.eq(res["gA_norm"].values[k], (res["gA"].values[k] - mean * mean) / (mean2 - mean * mean)))
        if other is not None:
            sp = {types[i] for i in range(N) if sel[i]}
            if len(sp) == 1 and all(sel[i] == (types[i] in sp) for i in range(N)):
                a = sp.pop()
                ctx.oblige(f"selection == g{a}{a}[{k}]", O.eq(res["gA"].values[k], other[f"gr{a}{a}"].values[k]))
    if kind == "float":
        # A = 1 reproduces the total (a second call on the same snapshot)
        ones = C.farr(ctx, [1.0] * N)
        r1 = g.conditional_gr(snap, condition=ones, ppp=np.array(ppp), rdelta=delta)
        for k in range(B):
            ctx.oblige(f"A=1 -> total[{k}]", O.eq(r1["gA"].values[k], r1["gr"].values[k]))
    if kind == "vector":
        tot = [0] * B
        for c in range(d):
            rc = g.conditional_gr(snap, condition=arr[:, c], ppp=np.array(ppp), rdelta=delta)
            for k in range(B):
                tot[k] = tot[k] + rc["gA"].values[k]
        for k in range(B):
            ctx.oblige(f"vector = sum of components[{k}]", O.eq(res["gA"].values[k], tot[k]))


def h_csq(ctx, d, N, kind, box, qvec, sel=None, types=None):
    ctx.covers(FUNCS[1], FUNCS[3])
    sqm = ctx.repo("PyMatterSim.static.sq")
    ru = ctx.repo("PyMatterSim.reader.reader_utils")
    sym = ctx.mode == "sym"
    L = [C.const(ctx, x) for x in BOXES[d][box]]
    rows = [[L[a] if a == b else 0 for b in range(d)] for a in range(d)]
    pi_ = O.pi(ctx)
    prow = [[ctx.real(f"p{i}_{a}") for a in range(d)] for i in range(N)]
    types = types or [1] * N
    snap = C.snapshot(ctx, ru, 0, types, C.farr(ctx, prow), rows)
    arr, w, vals = _cond(ctx, kind, N, d, sel)
    per_q, ave = sqm.conditional_sq(snap, qvector=C.iarr(ctx, qvec), condition=arr)
    ctx.output("Sq", np.asarray(per_q["Sq"].values))
    Q = len(qvec)
    ctx.oblige("one row per wave vector", len(per_q) == Q)
    Na = sum(1 for s in sel if s) if kind == "bool" else N

    def mode(n, coef):
        re, im = 0, 0
        for i in range(N):
            th = 0
            for a in range(d):
                th = th + (2 * pi_ * int(n[a]) / L[a]) * prow[i][a]
            c, s = O.cos_sin(th)
            re, im = re + coef(i) * c, im - coef(i) * s
        return re, im
    sval = []
    for k, n in enumerate(qvec):
        if kind == "bool":
            comps = [mode(n, lambda i: 1 if sel[i] else 0)]
        elif kind == "float":
            comps = [mode(n, lambda i: vals[i])]
        elif kind == "complex":
            # sum_i (a_i + i b_i) exp(-i q.r_i) = sum (a c + b s) + i sum (b c - a s)
            ar, ai = vals
            R = I = 0
            for i in range(N):
                th = 0
                for a in range(d):
                    th = th + (2 * pi_ * int(n[a]) / L[a]) * prow[i][a]
                c, s_ = O.cos_sin(th)
                R, I = R + ar[i] * c + ai[i] * s_, I + ai[i] * c - ar[i] * s_
            comps = [(R, I)]
        else:
            comps = [mode(n, lambda i, c=c: vals[i, c]) for c in range(d)]
        ref = sum(re * re + im * im for re, im in comps) / Na
        sval.append(ref)
        ctx.oblige(f"Sq[{k}]", O.eq(per_q["Sq"].values[k], ref, atol=1e-7))
        for a in range(d):
            ctx.oblige(f"q{a}[{k}]", O.eq(per_q[f"q{a}"].values[k], 2 * pi_ * int(n[a]) / L[a], atol=1e-7))
    # average over equal |q|
    def q2(n):
        return sum((Fraction(int(n[a])) / Fraction(BOXES[d][box][a])) ** 2 for a in range(d))
    groups = {}
    for k, n in enumerate(qvec):
        groups.setdefault(q2(n), []).append(k)
    keys = sorted(groups)
    ctx.oblige("averaged rows", len(ave) == len(keys) and list(ave.columns) == ["q", "Sq"])
    if len(ave) == len(keys):
        for gi, k2 in enumerate(keys):
            m = sum(sval[k] for k in groups[k2]) / len(groups[k2])
            ctx.oblige(f"<Sq>[{gi}]", O.eq(ave["Sq"].values[gi], m, atol=1e-7))
    if kind == "bool" and max(types) > 1:
        sp = {types[i] for i in range(N) if sel[i]}
        if len(sp) == 1 and all(sel[i] == (types[i] in sp) for i in range(N)):
            a = sp.pop()
            full = sqm.sq(ru.Snapshots(nsnapshots=1, snapshots=[snap]), qvector=C.iarr(ctx, qvec)).getresults()
            for gi in range(len(keys)):
                ctx.oblige(f"selection == S{a}{a}[{gi}]", O.eq(ave["Sq"].values[gi], full[f"Sq{a}{a}"].values[gi], atol=3e-6))
    if kind == "float":
        ones = C.farr(ctx, [1.0] * N)
        _, a1 = sqm.conditional_sq(snap, qvector=C.iarr(ctx, qvec), condition=ones)
        full = sqm.sq(ru.Snapshots(nsnapshots=1, snapshots=[snap]), qvector=C.iarr(ctx, qvec)).getresults()
        for gi in range(len(keys)):
            ctx.oblige(f"A=1 -> total S[{gi}]", O.eq(a1["Sq"].values[gi], full["Sq"].values[gi], atol=3e-6))



# ---------------------------------------------------------------- machine-integer side query (from the AST)
def prelude(tier, seed):
    """The symbolic runs use mathematical integers for the pair counts.  The code, however, narrows the boolean selection to
    a machine integer type before it is used as histogram weight, and numpy returns weighted counts in the dtype of the weights.
    For every integer cast found in conditional_gr's source z3 decides whether a per-particle bin count (at most N-1 selected
    partners) can exceed the type's range for some N <= 10^7; a witness N is replayed on the real code with a dense cluster and
    reported only if conditional g(r) of an all-true selection then differs from g(r)."""
    import ast
    import importlib
    import inspect
    import time
    import z3
    t0 = time.time()
    g = importlib.import_module("PyMatterSim.static.gr")
    out = dict(name="integer_capacity", obligations=0, discharged=0, undecided=0, samples=[], violations=[], errors=[],
               functions=["PyMatterSim.static.gr.conditional_gr"], lemmas=[])
    bits = {"int8": 8, "int16": 16, "int32": 32, "int64": 64, "uint8": 8, "uint16": 16, "uint32": 32, "uint64": 64, "intc": 32, "int_": 64,
            "short": 16, "byte": 8}
    try:
        tree = ast.parse(inspect.getsource(g.conditional_gr).lstrip())
    except Exception as e:      # source not available: nothing is claimed by this side query
        out["samples"].append(dict(obligation="integer capacity: source not parsed - skipped", verdict="skipped"))
        out["wall_s"] = out["solver_s"] = time.time() - t0
        return [out]
    casts = []
    for node in ast.walk(tree):
        if isinstance(node, ast.Call) and isinstance(node.func, ast.Attribute) and node.func.attr == "astype" and node.args:
            a = node.args[0]
            name = a.attr if isinstance(a, ast.Attribute) else (a.id if isinstance(a, ast.Name) else (a.value if isinstance(a, ast.Constant) else None))
            if isinstance(name, str) and name in bits:
                casts.append((name, bits[name], not name.startswith("u")))
    for name, b, signed in casts:
        N, cnt = z3.Ints("N cnt")
        cap = 2 ** (b - 1) - 1 if signed else 2 ** b - 1
        s = z3.Solver()
        s.set("timeout", 10000)
        s.add(N >= 2, N <= 10 ** 7, cnt >= 0, cnt <= N - 1, cnt > cap)
        r = s.check()
        out["obligations"] += 1
        if r == z3.unsat:
            out["discharged"] += 1
            out["samples"].append(dict(obligation=f"astype({name}): every per-particle bin count <= N-1 fits for all N <= 10^7", verdict="unsat"))
            continue
        if r != z3.sat:
            out["undecided"] += 1
            continue
        n = max(int(s.model().eval(N).as_long()), cap + 2)
        n = min(n, cap + 40)
        rep = _replay_capacity(n)
        if rep is None:
            out["discharged"] += 1        # the narrow type is not what the counts are accumulated in: no concrete effect
            out["samples"].append(dict(obligation=f"astype({name}): overflow witness N={n} not reproduced on the real code", verdict="sat, not reproduced"))
        else:
            import hashlib
            import os
            d = os.path.join(os.environ.get("VERIF_OUT") or os.path.dirname(os.path.dirname(os.path.abspath(__file__))), "replays")
            os.makedirs(d, exist_ok=True)
            path = os.path.join(d, f"C13_integer_capacity_{name}.json")
            json.dump(dict(property="C13", harness="integer_capacity", cast=name, particles=n, observed=rep[0], expected=rep[1],
                           note="conditional_gr(all-true selection) vs gr(...) on a dense cluster: weighted counts overflow the cast type"),
                      open(path, "w"), indent=1)
            out["violations"].append(dict(harness="integer_capacity", config=dict(cast=name, N=n), obligation=f"astype({name}) holds counts up to N-1",
                                          replay=path, exception=None, failed=[f"gA {rep[0]} vs gr {rep[1]}"]))
    out["wall_s"] = out["solver_s"] = time.time() - t0
    return [out]


def _replay_capacity(n):
    """n particles in a small cluster inside a large box, one wide bin: every particle has n-1 partners in the same bin.
    returns (observed, expected) if conditional_gr of the all-true selection differs from the total g(r), else None"""
    import importlib
    g = importlib.import_module("PyMatterSim.static.gr")
    ru = importlib.import_module("PyMatterSim.reader.reader_utils")
    rng = np.random.default_rng(7)
    L = 40.0
    pos = 20.0 + rng.uniform(-0.5, 0.5, size=(n, 2))
    snap = ru.SingleSnapshot(timestep=0, nparticle=n, particle_type=np.ones(n, dtype=int), positions=pos, boxlength=np.array([L, L]),
                             boxbounds=np.array([[0.0, L], [0.0, L]]), realbounds=None, hmatrix=np.diag([L, L]))
    S = ru.Snapshots(nsnapshots=1, snapshots=[snap])
    ppp = np.array([1, 1])
    a = g.conditional_gr(snap, condition=np.ones(n, dtype=bool), conditiontype=None, ppp=ppp, rdelta=10.0)
    b = g.gr(S, ppp=ppp, rdelta=10.0).getresults()
    x, y = np.asarray(a["gA"].values, dtype=float), np.asarray(b["gr"].values, dtype=float)
    if x.shape == y.shape and np.allclose(x, y, rtol=1e-6, atol=1e-9):
        return None
    return [float(v) for v in x], [float(v) for v in y]


def cfg_gr(tier, seed):
    out = []
    per, opn = [1, 1], [0, 0]
    for sel in product((False, True), repeat=3):
        if not any(sel):
            continue
        out.append(dict(d=2, N=3, kind="bool", cell="sym-o", ppp=per, Bmax=2 if sum(sel) > 1 else 1, sel=list(sel), types=[1, 2, 1]))
    for kind in ("float", "complex", "vector", "tensor"):
        out.append(dict(d=2, N=3, kind=kind, cell="sym-o", ppp=per, Bmax=2))
    out.append(dict(d=2, N=3, kind="float", cell="sym-o", ppp=opn, Bmax=1))
    out.append(dict(d=2, N=3, kind="float", cell="t-", ppp=per, Bmax=2))          # triclinic, negative tilt
    out.append(dict(d=2, N=3, kind="bool", cell="t+", ppp=per, Bmax=1, sel=[True, False, True], types=[1, 2, 1]))
    if tier == "thorough":
        for kind in ("bool", "float", "vector", "tensor"):
            out.append(dict(d=3, N=3, kind=kind, cell="sym-o", ppp=[1, 1, 1], Bmax=1, sel=[True, False, True], types=[1, 2, 1]))
            out.append(dict(d=2, N=3, kind=kind, cell="t-", ppp=per, Bmax=2, sel=[True, True, False], types=[1, 1, 2]))
        out.append(dict(d=2, N=4, kind="float", cell="sym-o", ppp=per, Bmax=1, fixed=1))
        for kind in ("complex", "vector", "tensor"):
            out.append(dict(d=2, N=4, kind=kind, cell="sym-o", ppp=per, Bmax=1, fixed=2))
            out.append(dict(d=3, N=3, kind=kind, cell="t+", ppp=[1, 1, 1], Bmax=1))
        out.append(dict(d=2, N=3, kind="float", cell="sym-o", ppp=per, Bmax=3))
        out.append(dict(d=3, N=3, kind="float", cell="t-", ppp=[1, 0, 1], Bmax=2))
    return out


def cfg_sq(tier, seed):
    out = []
    q2 = [[1, 0], [0, 1], [-1, 0]]
    q2b = [[1, 1], [2, 0], [0, -2]]
    for sel in ([True, False, True], [False, True, False], [True, True, True]):
        out.append(dict(d=2, N=3, kind="bool", box=0, qvec=q2, sel=sel, types=[1, 2, 1]))
    out.append(dict(d=2, N=3, kind="float", box=1, qvec=q2b))
    out.append(dict(d=2, N=3, kind="vector", box=2, qvec=q2))
    out.append(dict(d=2, N=3, kind="complex", box=1, qvec=q2b))
    out.append(dict(d=3, N=2, kind="float", box=0, qvec=[[1, 0, 0], [0, 0, 1], [0, -1, 0]]))
    if tier == "thorough":
        out.append(dict(d=3, N=3, kind="vector", box=1, qvec=[[1, 0, 0], [0, 1, 0], [1, 1, 0]]))
        out.append(dict(d=3, N=3, kind="bool", box=0, qvec=[[1, 0, 0], [0, 0, 1]], sel=[False, True, True], types=[1, 2, 2]))
        out.append(dict(d=2, N=4, kind="complex", box=2, qvec=[[1, 0], [0, 1], [1, -1], [2, 1]]))
        out.append(dict(d=3, N=4, kind="vector", box=0, qvec=[[1, 0, 0], [1, 1, 1]]))
        out.append(dict(d=2, N=5, kind="float", box=0, qvec=[[1, 0], [0, -1], [2, 2]]))
    return out


HARNESSES = [H("conditional_gr", h_cgr, cfg_gr, timeout_ms=30000, validate_timeout_ms=3000),
             H("conditional_sq", h_csq, cfg_sq, timeout_ms=30000, validate_atol=1e-7)]
