"""C04 S(q): every total and partial column equals the density-mode definition (DESIGN C04)."""
import itertools
import math
import time
from fractions import Fraction

import numpy as np

from symx import ops as O
from symx.run import H
from checks import common as C

FUNCS = ["PyMatterSim.static.sq.sq.__init__", "PyMatterSim.static.sq.sq.getresults", "PyMatterSim.static.sq.sq.unary",
         "PyMatterSim.static.sq.sq.binary", "PyMatterSim.static.sq.sq.ternary", "PyMatterSim.static.sq.sq.quarternary",
         "PyMatterSim.static.sq.sq.quinary", "PyMatterSim.utils.wavevector.choosewavevector"]
BOUNDS = {
    "quick": "d in {2,3}; concrete rational orthogonal boxes with unequal edges; all real positions; N=3 (K<=3) and ladders N=K+1 "
             "(K=4,5,6); explicit integer q lists (Q<=4, several with equal |q|) and the default set for symbolic qrange with "
             "numofq in {2,3,4}; F<=2; default wave-vector table decided against its definition for numofq<=8 (2D), <=6 (3D)",
    "thorough": "as quick plus N<=5 (7 for K=6), F<=3, Q<=6 and d=3 for K<=4",
}
STUBS = ["cos/sin of the phase -> one (c,s) pair per distinct phase (structural cache), c^2+s^2=1",
         "DataFrame.round(6) -> identity (stated deviation 5e-7)", "groupby(|q|).mean() on symbolic columns -> facade"]
ASSUMPTIONS = ["floats modelled as reals", "type ids are 1..K with every type present", "box concrete (so that |q| groups are decided)",
               "float perfect-square test of choosewavevector exact for |v|^2 < 2^52"]

BOXES = {2: [["3", "4"], ["5", "5/2"], ["2", "2"]], 3: [["3", "4", "5"], ["2", "2", "7/2"]]}


def h_sq(ctx, d, N, F, K, types, box, qvec=None, qrange=None, onlypositive=False):
    ctx.covers(*FUNCS)
    sqm = ctx.repo("PyMatterSim.static.sq")
    ru = ctx.repo("PyMatterSim.reader.reader_utils")
    sym = ctx.mode == "sym"
    L = [C.const(ctx, x) for x in BOXES[d][box]]
    rows = [[L[a] if a == b else 0 for b in range(d)] for a in range(d)]
    pi_ = O.pi(ctx)
    snaps, poss = [], []
    for f in range(F):
        prow = [[ctx.real(f"p{f}_{i}_{a}") for a in range(d)] for i in range(N)]
        poss.append(prow)
        snaps.append(C.snapshot(ctx, ru, f, types, C.farr(ctx, prow), rows))
    S = ru.Snapshots(nsnapshots=F, snapshots=snaps)
    if qvec is not None:
        qv = np.array(qvec, dtype=int)
        obj = sqm.sq(S, qvector=C.iarr(ctx, qvec))
    else:
        Lmax = max(float(Fraction(x)) for x in BOXES[d][box])
        Lmaxq = C.const(ctx, max(Fraction(x) for x in BOXES[d][box]))
        qr = ctx.real("qrange", positive=True)
        # numofq = int(qrange * Lmax / pi) in {2,3,4}
        ctx.assume(O.And(O.ge(qr * Lmaxq, 2 * pi_), O.lt(qr * Lmaxq, 5 * pi_)))
        obj = sqm.sq(S, qrange=qr, onlypositive=onlypositive)
        qv = np.asarray(obj.df_qvector.values, dtype=int)
        numofq = int(math.floor(float(qr.feval(ctx.eng.env_from_inputs({})) if False else 0))) if False else None
        # the default set must be the documented one for the numofq the code derived
        nq = None
        for cand in (2, 3, 4):
            c = O.And(O.ge(qr * Lmaxq, cand * pi_), O.lt(qr * Lmaxq, (cand + 1) * pi_))
            if sym:
                from symx.scalar import SB
                if isinstance(c, SB):
                    import z3
                    r, _ = ctx.eng.check([z3.Not(c.z)], c.atoms)
                    if r == "unsat":
                        nq = cand
                elif c:
                    nq = cand
            elif c:
                nq = cand
        ctx.oblige("numofq determined", nq is not None)
        if nq is None:
            return
        want = default_set(d, nq, onlypositive)
        ctx.oblige("default wave-vector set", sorted(map(tuple, qv.tolist())) == sorted(want))
    res = obj.getresults()
    cols = list(res.columns)
    want_cols = ["q", "Sq"]
    if 2 <= K <= 5:
        want_cols += [f"Sq{a}{a}" for a in range(1, K + 1)] + [f"Sq{a}{b}" for a in range(1, K + 1) for b in range(a + 1, K + 1)]
    ctx.oblige("columns", sorted(cols) == sorted(want_cols))
    if sorted(cols) != sorted(want_cols):
        return
    for c in cols:
        ctx.output(c, np.asarray(res[c].values))
    # reference: groups of equal |q| in increasing order
    def q2(n):
        return sum((Fraction(int(n[a])) / Fraction(BOXES[d][box][a])) ** 2 for a in range(d))
    groups = {}
    for n in qv.tolist():
        groups.setdefault(q2(n), []).append(n)
    keys = sorted(groups)
    ctx.oblige("one row per distinct |q|", len(res) == len(keys))
    if len(res) != len(keys):
        return
    cnt = {t: types.count(t) for t in range(1, K + 1)}

    def rho(f, n, sel):
        re, im = 0, 0
        for i in range(N):
            if sel(types[i]):
                th = 0
                for a in range(d):
                    th = th + (2 * pi_ * int(n[a]) / L[a]) * poss[f][i][a]
                c, s = O.cos_sin(th)
                re, im = re + c, im - s
        return re, im

    for g, k2 in enumerate(keys):
        qval = 2 * pi_ * (O.sqrt(C.const(ctx, k2)) if not sym else __import__("symx.scalar", fromlist=["sqrt"]).sqrt(k2))
        ctx.oblige(f"q[{g}]", O.eq(res["q"].values[g], qval, atol=2e-6))
        vecs = groups[k2]

        def S_ab(a, b):
            tot = 0
            for n in vecs:
                for f in range(F):
                    ra = rho(f, n, (lambda t: True) if a is None else (lambda t, a=a: t == a))
                    rb = rho(f, n, (lambda t: True) if b is None else (lambda t, b=b: t == b))
                    tot = tot + ra[0] * rb[0] + ra[1] * rb[1]
            Na = N if a is None else cnt[a]
            Nb = N if b is None else cnt[b]
            norm = O.sqrt(C.const(ctx, Na * Nb)) if not sym else __import__("symx.scalar", fromlist=["sqrt"]).sqrt(Fraction(Na * Nb))
            return tot / (F * len(vecs)) / norm
        ctx.oblige(f"Sq[{g}]", O.eq(res["Sq"].values[g], S_ab(None, None), atol=2e-6))

        def nonneg(col, a):
            """column = mean of |rho_a|^2 written with one symbol per density mode (sum of squares), then >= 0"""
            tot = 0
            for n in vecs:
                for f in range(F):
                    ra = rho(f, n, (lambda t: True) if a is None else (lambda t, a=a: t == a))
                    u = ctx.define(f"re_{col}_{g}_{f}_{'_'.join(map(str, n))}", ra[0])
                    v = ctx.define(f"im_{col}_{g}_{f}_{'_'.join(map(str, n))}", ra[1])
                    tot = tot + u * u + v * v
            Na = N if a is None else cnt[a]
            ctx.oblige(f"{col}[{g}] = mean |rho|^2", O.eq(res[col].values[g], tot / (F * len(vecs)) / Na, atol=2e-6), then_assume=True)
            ctx.oblige(f"{col}[{g}] >= 0", O.ge(res[col].values[g], 0, 1e-6))
        nonneg("Sq", None)
        if 2 <= K <= 5:
            mix = 0
            for a in range(1, K + 1):
                for b in range(a, K + 1):
                    col = f"Sq{a}{b}"
                    ctx.oblige(f"{col}[{g}]", O.eq(res[col].values[g], S_ab(a, b), atol=2e-6))
                    if a == b:
                        nonneg(col, a)
                        mix = mix + cnt[a] * res[col].values[g]
                    else:
                        w = O.sqrt(C.const(ctx, cnt[a] * cnt[b])) if not sym else __import__("symx.scalar", fromlist=["sqrt"]).sqrt(Fraction(cnt[a] * cnt[b]))
                        mix = mix + 2 * w * res[col].values[g]
            ctx.oblige(f"sum rule[{g}]", O.eq(N * res["Sq"].values[g], mix, atol=5e-5))


def default_set(d, numofq, onlypositive):
    nh = numofq // 2
    out = []
    for v in itertools.product(range(-nh, nh), repeat=d):
        n2 = sum(x * x for x in v)
        if n2 == 0 or math.isqrt(n2) ** 2 != n2:
            continue
        if onlypositive and min(v) < 0:
            continue
        out.append(tuple(v))
    return out


def prelude(tier, seed):
    """z3 decides: v in table(choosewavevector(d, n, flag))  <=>  v != 0, -n//2 <= v_i < n//2, |v|^2 a perfect square
    (and v >= 0 if onlypositive), for all integer vectors in a box twice the range."""
    import importlib
    import z3
    t0 = time.time()
    out = dict(name="default_wavevectors", obligations=0, discharged=0, undecided=0, solver_s=0.0, samples=[], violations=[],
               errors=[], functions=[FUNCS[-1]], lemmas=[], wall_s=0.0)
    wv = importlib.import_module("PyMatterSim.utils.wavevector")
    for d, nmax in ((2, 8), (3, 6 if tier == "thorough" else 5)):
        for n in range(2, nmax + 1):
            for flag in (False, True):
                tab = wv.choosewavevector(d, n, flag)
                v = [z3.Int(f"v{a}") for a in range(d)]
                m = z3.Int("m")
                nh = n // 2
                member = z3.Or(*[z3.And(*[v[a] == int(row[a]) for a in range(d)]) for row in tab]) if len(tab) else z3.BoolVal(False)
                n2 = sum(v[a] * v[a] for a in range(d))
                mbound = int(math.isqrt(d * (2 * n) ** 2)) + 1
                spec = z3.And(z3.Or(*[v[a] != 0 for a in range(d)]), *[z3.And(v[a] >= -nh, v[a] < nh) for a in range(d)],
                              z3.Or(*[n2 == k * k for k in range(0, mbound + 1)]))
                if flag:
                    spec = z3.And(spec, *[v[a] >= 0 for a in range(d)])
                s = z3.Solver()
                s.add(*[z3.And(v[a] >= -2 * n, v[a] <= 2 * n) for a in range(d)])
                s.add(member != spec)
                r = s.check()
                out["obligations"] += 1
                rows = [tuple(int(x) for x in row) for row in tab]
                dup = len(set(rows)) != len(rows)
                if r == z3.unsat and not dup:
                    out["discharged"] += 1
                    if len(out["samples"]) < 2:
                        out["samples"].append(dict(obligation=f"d={d} numofq={n} onlypositive={flag}: table == definition ({len(rows)} vectors)", verdict="unsat"))
                elif r == z3.sat or dup:
                    wit = [s.model().eval(x, model_completion=True).as_long() for x in v] if r == z3.sat else "duplicate rows"
                    out["violations"].append(dict(harness="default_wavevectors", config=dict(d=d, numofq=n, onlypositive=flag),
                                                  obligation="table == definition", replay=None, exception=None, failed=[str(wit)]))
                else:
                    out["undecided"] += 1
    out["solver_s"] = out["wall_s"] = time.time() - t0
    return [out]


def cfg(tier, seed):
    out = []
    q2 = [[1, 0], [0, 1], [-1, 0], [1, 1]]
    q2b = [[2, 0], [0, -2], [1, -1], [-1, 1]]
    q3 = [[1, 0, 0], [0, 0, 1], [1, 1, 0], [-1, 0, 0]]
    for K, tys in ((1, [[1, 1, 1]]), (2, [[1, 2, 1], [2, 2, 1]]), (3, [[1, 2, 3]])):
        for j, types in enumerate(tys):
            out.append(dict(d=2, N=3, F=1, K=K, types=types, box=j % 3, qvec=q2 if j == 0 else q2b))
    out.append(dict(d=2, N=3, F=2, K=2, types=[2, 1, 1], box=2, qvec=q2))
    # more than one frame for every species count (per-frame state must be reset between frames)
    out.append(dict(d=2, N=3, F=2, K=1, types=[1, 1, 1], box=1, qvec=q2[:3]))
    out.append(dict(d=2, N=3, F=2, K=3, types=[3, 1, 2], box=0, qvec=q2b[:3]))
    out.append(dict(d=2, N=5, F=2, K=4, types=[1, 2, 3, 4, 2], box=1, qvec=q2[:2]))
    out.append(dict(d=2, N=6, F=2, K=5, types=[5, 4, 3, 2, 1, 3], box=2, qvec=q2b[:2]))
    out.append(dict(d=3, N=3, F=1, K=2, types=[1, 2, 2], box=1, qvec=q3))
    out.append(dict(d=3, N=2, F=1, K=1, types=[1, 1], box=0, qvec=q3))
    for K in (4, 5, 6):
        base = list(range(1, K + 1))
        out.append(dict(d=2, N=K + 1, F=1, K=K, types=base + [1], box=0, qvec=q2[:3]))
        out.append(dict(d=2, N=K + 1, F=1, K=K, types=base[::-1] + [K], box=1, qvec=q2b[:3]))
    out.append(dict(d=2, N=2, F=1, K=1, types=[1, 1], box=0, qrange="sym", onlypositive=False))
    out.append(dict(d=2, N=2, F=1, K=2, types=[1, 2], box=2, qrange="sym", onlypositive=True))
    if tier == "thorough":
        out.append(dict(d=3, N=2, F=1, K=1, types=[1, 1], box=1, qrange="sym", onlypositive=True))
        out.append(dict(d=3, N=3, F=1, K=3, types=[3, 1, 2], box=0, qvec=q3))
        out.append(dict(d=2, N=4, F=1, K=2, types=[1, 2, 1, 2], box=0, qvec=q2 + [[0, -1], [2, 0]]))
        out.append(dict(d=2, N=5, F=3, K=3, types=[1, 2, 3, 1, 2], box=2, qvec=q2))
        out.append(dict(d=3, N=4, F=2, K=2, types=[2, 1, 1, 2], box=1, qvec=q3 + [[0, 1, -1], [2, 0, 0]]))
        out.append(dict(d=3, N=5, F=2, K=4, types=[1, 2, 3, 4, 1], box=0, qvec=q3[:3]))
        out.append(dict(d=2, N=7, F=2, K=6, types=[1, 2, 3, 4, 5, 6, 3], box=1, qvec=q2[:2]))
        out.append(dict(d=3, N=3, F=1, K=1, types=[1, 1, 1], box=0, qrange="sym", onlypositive=False))
    return out


HARNESSES = [H("sq_columns", h_sq, cfg, timeout_ms=30000, validate_atol=3e-6)]
