"""C01 LAMMPS dump reading preserves every frame's particles, coordinates and cell (DESIGN C01)."""
import os
from fractions import Fraction
from itertools import permutations, product

import numpy as np

from symx import ops as O
from symx.run import H

FUNCS = ["PyMatterSim.reader.dump_reader.DumpReader.read_onefile",
         "PyMatterSim.reader.lammps_reader_helper.read_lammps_wrapper",
         "PyMatterSim.reader.lammps_reader_helper.read_lammps"]
BOUNDS = {
    "quick": "d in {2,3} x style in {x,xs,xu} x cell in {orthogonal, triclinic (tilts of either sign)}; N=2 atoms, F in {1,2} "
             "frames, every permutation of atom lines per frame, with/without two trailing columns; all numerals "
             "(timestep, bounds, tilts, coordinates, extras) symbolic reals",
    "thorough": "as quick with N=3 and F up to 3 (all (N!)^F line orders for F<=2, seeded orders for F=3)",
}
STUBS = ["numerals in the text file are opaque placeholder tokens mapped back by float()/int()/array assignment "
         "(digit-level lexing of a numeral is outside the claim)"]
ASSUMPTIONS = ["floats modelled as reals", "well-formed dump files in the 'ITEM:' grammar written by the harness",
               "wrapped style: excursion of at most one box length per axis", "lo < hi per axis; triclinic real lengths > 0"]


def ref_min(*xs):
    m = xs[0]
    for x in xs[1:]:
        m = O.If(O.le(x, m), x, m)
    return m


def ref_max(*xs):
    m = xs[0]
    for x in xs[1:]:
        m = O.If(O.ge(x, m), x, m)
    return m


def _num(ctx, v):
    if isinstance(v, (int, float, Fraction)):
        return repr(float(v))
    return ctx.fmt(v)


def h_read(ctx, d, style, cell, N, F, orders, extra, types, tilts=None):
    ctx.covers(*FUNCS)
    rd = ctx.repo("PyMatterSim.reader.dump_reader")
    ru = ctx.repo("PyMatterSim.reader.reader_utils")
    sym = ctx.mode == "sym"
    fmt = ctx.fmt
    frames = []
    lines = []
    for f in range(F):
        ts = ctx.real(f"ts{f}")
        if not sym:
            ts = int(round(ts))
        lo = [ctx.real(f"lo{f}_{a}") for a in range(3)]
        hi = [ctx.real(f"hi{f}_{a}") for a in range(3)]
        tilt = dict(xy=0, xz=0, yz=0)
        if cell == "tri" and tilts is None:
            tilt["xy"] = ctx.real(f"xy{f}")
            if d == 3:
                tilt["xz"] = ctx.real(f"xz{f}")
                tilt["yz"] = ctx.real(f"yz{f}")
        elif cell == "tri":
            for k, v in zip(("xy", "xz", "yz"), tilts[f]):
                tilt[k] = Fraction(v) if sym else float(Fraction(v))
            if d == 2:
                tilt["xz"] = tilt["yz"] = 0
        # real box from the written bounds (LAMMPS Howto_triclinic)
        if cell == "tri":
            xlo = lo[0] - ref_min(0, tilt["xy"], tilt["xz"], tilt["xy"] + tilt["xz"])
            xhi = hi[0] - ref_max(0, tilt["xy"], tilt["xz"], tilt["xy"] + tilt["xz"])
            ylo = lo[1] - ref_min(0, tilt["yz"])
            yhi = hi[1] - ref_max(0, tilt["yz"])
            rlo = [xlo, ylo, lo[2]]
            rhi = [xhi, yhi, hi[2]]
        else:
            rlo, rhi = list(lo), list(hi)
        L = [rhi[a] - rlo[a] for a in range(3)]
        for a in range(d):
            ctx.assume(O.gt(L[a], 0))
        if d == 2:
            ctx.assume(O.gt(hi[2], lo[2]))
        coords = [[ctx.real(f"c{f}_{i}_{a}") for a in range(d)] for i in range(N)]
        ex = [[ctx.real(f"e{f}_{i}_{k}") for k in range(extra)] for i in range(N)]
        if style == "x" and cell == "ortho":
            for i in range(N):
                for a in range(d):
                    ctx.assume(O.And(O.ge(coords[i][a], rlo[a] - L[a]), O.le(coords[i][a], rhi[a] + L[a])))
        frames.append(dict(ts=ts, lo=lo, hi=hi, tilt=tilt, rlo=rlo, rhi=rhi, L=L, coords=coords))
        # ---- text
        lines.append("ITEM: TIMESTEP")
        lines.append(fmt(ts) if sym else str(ts))
        lines.append("ITEM: NUMBER OF ATOMS")
        lines.append(str(N))
        if cell == "tri":
            lines.append("ITEM: BOX BOUNDS xy xz yz pp pp pp")
            tl = [tilt["xy"], tilt["xz"], tilt["yz"]]
            for a in range(3):
                lines.append(f"{fmt(lo[a])} {fmt(hi[a])} {_num(ctx, tl[a])}")
        else:
            lines.append("ITEM: BOX BOUNDS pp pp pp")
            for a in range(3):
                lines.append(f"{fmt(lo[a])} {fmt(hi[a])}")
        names = {"x": "x y z", "xs": "xs ys zs", "xu": "xu yu zu"}[style].split()[:d]
        lines.append("ITEM: ATOMS id type " + " ".join(names) + ("".join(f" q{k}" for k in range(extra))))
        for i in orders[f]:
            lines.append(" ".join([str(i + 1), str(types[i])] + [fmt(v) for v in coords[i]] + [fmt(v) for v in ex[i]]))
    path = os.path.join(ctx.tmpdir(), "dump.atom")
    with open(path, "w") as fh:
        fh.write("\n".join(lines) + "\n")
    reader = rd.DumpReader(path, ndim=d, filetype=ru.DumpFileType.LAMMPS)
    reader.read_onefile()
    snaps = reader.snapshots
    ctx.oblige("nsnapshots", snaps.nsnapshots == F and len(snaps.snapshots) == F)
    if len(snaps.snapshots) != F:
        return
    for f, (fr, sn) in enumerate(zip(frames, snaps.snapshots)):
        ctx.output(f"pos{f}", sn.positions)
        ctx.output(f"hm{f}", sn.hmatrix)
        ctx.oblige(f"timestep[{f}]", O.eq(sn.timestep, fr["ts"]))
        ctx.oblige(f"nparticle[{f}]", sn.nparticle == N)
        ctx.oblige(f"types[{f}]", [int(t) for t in sn.particle_type] == list(types))
        for a in range(d):
            ctx.oblige(f"boxlength[{f},{a}]", O.eq(sn.boxlength[a], fr["L"][a]))
            ctx.oblige(f"boxbounds[{f},{a}]", O.And(O.eq(sn.boxbounds[a, 0], fr["lo"][a]), O.eq(sn.boxbounds[a, 1], fr["hi"][a])))
            if cell == "tri":
                ctx.oblige(f"realbounds[{f},{a}]", O.And(O.eq(sn.realbounds[a, 0], fr["rlo"][a]),
                                                          O.eq(sn.realbounds[a, 1], fr["rhi"][a])))
        # cell matrix rows a, b, c (LAMMPS): a=(lx,0,0) b=(xy,ly,0) c=(xz,yz,lz)
        t = fr["tilt"]
        Href = [[fr["L"][0], 0, 0], [t["xy"], fr["L"][1], 0], [t["xz"], t["yz"], fr["L"][2]]]
        for a in range(d):
            for b in range(d):
                ctx.oblige(f"hmatrix[{f},{a},{b}]", O.eq(sn.hmatrix[a, b], Href[a][b]))
        for i in range(N):
            for a in range(d):
                got = sn.positions[i, a]
                c = fr["coords"][i]
                if style == "xu" or (style == "x" and cell == "tri"):
                    ctx.oblige(f"pos[{f},{i},{a}] verbatim", O.eq(got, c[a]))
                elif style == "x":
                    lo_, hi_, L_ = fr["rlo"][a], fr["rhi"][a], fr["L"][a]
                    ctx.oblige(f"pos[{f},{i},{a}] inside", O.And(O.ge(got, lo_), O.le(got, hi_)))
                    ctx.oblige(f"pos[{f},{i},{a}] image", O.Or(O.eq(got, c[a]), O.eq(got, c[a] + L_), O.eq(got, c[a] - L_)))
                    ctx.oblige(f"pos[{f},{i},{a}] unchanged-if-inside",
                               O.Implies(O.And(O.ge(c[a], lo_), O.le(c[a], hi_)), O.eq(got, c[a])))
                else:   # xs: r = lo_real + s . H
                    want = fr["rlo"][a]
                    for b in range(d):
                        want = want + c[b] * Href[b][a]
                    ctx.oblige(f"pos[{f},{i},{a}] scaled", O.eq(got, want))


TILTS = [("-1/2", "1/4", "-3/4"), ("3/4", "-1/4", "1/2"), ("-1/3", "-2/3", "1/5"), ("2/5", "1/3", "-1/7")]


def cfg(tier, seed):
    import random
    out = []
    N = 2 if tier == "quick" else 3
    perms = list(permutations(range(N)))
    types = [1, 2, 1][:N]
    rng = random.Random(seed * 7919 + 17)
    for d, style, cell in product((2, 3), ("x", "xs", "xu"), ("ortho", "tri")):
        for F in ((1, 2) if tier == "quick" else (1, 2, 3)):
            if F <= 2:
                ords = list(product(perms, repeat=F))
            else:
                ords = [tuple(rng.choice(perms) for _ in range(F)) for _ in range(3)]
            if F == 2:
                ords = [o for o in ords if o[0] != o[1]] or ords
                if tier == "quick":
                    ords = ords[:2]
            for k, o in enumerate(ords):
                extra = 2 if (k + F) % 2 else 0
                base = dict(d=d, style=style, cell=cell, N=N, F=F, orders=[list(x) for x in o], extra=extra, types=types)
                if cell == "tri" and (d == 3 and F >= 2 or F >= 3):
                    # many frames: concrete tilts of either sign per frame (the sign analysis of symbolic tilts is
                    # explored exhaustively in the F=1 configurations)
                    for r in range(2):
                        tl = [TILTS[(r + f + rng.randrange(4)) % 4] for f in range(F)]
                        out.append(dict(base, tilts=[list(t) for t in tl]))
                else:
                    out.append(base)
    return out


HARNESSES = [H("read_dump", h_read, cfg)]
