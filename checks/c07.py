"""C07 observables respect translation, image, relabelling, species-swap, axis, rotation and dilation symmetry (DESIGN C07).

Metamorphic scheme: on one explored path the real analysis code runs on a symbolic configuration and on its transformed
copy (the transformation parameters are symbolic too: translation vector, integer image numbers, rotation (c,s) on the unit
circle, dilation factor); the solver decides that the two outputs are equal / permuted / swapped accordingly.
"""
import os
from fractions import Fraction
from itertools import permutations

import numpy as np

from symx import ops as O
from symx.run import H
from checks import common as C

BOUNDS = {
    "quick": "N=3 particles (N=5 for tetrahedral order with 4 concrete), F<=2 frames, d=2 (3 where the observable needs it); "
             "all positions symbolic; translation vector, image numbers (integers in [-2,2], concrete cells incl. triclinic), "
             "rotation (cos,sin on the unit circle; axis rotations in 3D), dilation factor symbolic; all N! relabellings for N=3; "
             "matrix of (observable x transformation) listed in the evidence per configuration",
    "thorough": "as quick plus d=3 variants, both tilt signs, F=3 relaxation, boo_3d l up to 6",
}
STUBS = ["boo.sph_harm_l -> opaque symbols per distinct bond direction (translation/image/relabel/dilation of boo_3d); real table "
         "for the rotation about z (l=1)", "np.linalg.eigh -> contract stub (Hessian: only the matrix law is decided)",
         "np.rint -> symbol + lemma instances (L2 for integer image shifts)"]
ASSUMPTIONS = ["floats modelled as reals ('to floating-point accuracy' is the replay tolerance 1e-7)", "away from exact half-cell ties",
               "general SO(3) only through rotations about the coordinate axes; q_l rotation only about z (l=1, real table)",
               "Hessian spectra: the matrix law (equal / P H P^T / axis-permuted) is decided, the spectrum follows by similarity",
               "species swap: two species; axis permutation: orthogonal cells"]


# ------------------------------------------------------------------------------------------------ systems and transformations

def mk_system(ctx, d, N, F, types, cell, fixed=0, tag="p", symcoords=None):
    rows = C.make_cell(ctx, d, cell)
    fixed_pos = [["1/3", "1/5", "1/7"], ["-2/5", "3/4", "1/2"], ["9/10", "-1/3", "-3/5"], ["-1/7", "-6/5", "4/5"],
                 ["5/4", "7/6", "-1/9"], ["-8/7", "1/11", "6/5"]]
    nsym = d if symcoords is None else symcoords        # number of symbolic coordinates of each free particle
    pos = [[[(C.const(ctx, fixed_pos[i][a]) if (i < fixed or a >= nsym) else ctx.real(f"{tag}{f}_{i}_{a}")) for a in range(d)]
            for i in range(N)] for f in range(F)]
    return dict(d=d, N=N, F=F, types=list(types), rows=rows, pos=pos, steps=[10 * (f + 1) for f in range(F)], scale=1)


def snapshots_of(ctx, ru, sy):
    snaps = [C.snapshot(ctx, ru, sy["steps"][f], sy["types"], C.farr(ctx, sy["pos"][f]), sy["rows"]) for f in range(sy["F"])]
    return ru.Snapshots(nsnapshots=sy["F"], snapshots=snaps)


def transform(ctx, sy, tr, arg=None):
    """returns (transformed system, particle map old index -> new index, axis map new axis -> old axis)"""
    d, N, F = sy["d"], sy["N"], sy["F"]
    sym = ctx.mode == "sym"
    out = dict(sy)
    pmap = list(range(N))
    amap = list(range(d))
    pos = sy["pos"]
    if tr == "translate":
        t = [ctx.real(f"t{a}") for a in range(d)]
        if sym:
            from symx import scalar as S_
            S_.declare_phase_offsets(*t)
        out["pos"] = [[[pos[f][i][a] + t[a] for a in range(d)] for i in range(N)] for f in range(F)]
    elif tr == "image":
        # arg == "one": only particle 0 is shifted (by an arbitrary integer vector); default: every particle independently
        # arg == "perframe": an independent image vector for every particle in every frame (what a wrapped trajectory is)
        if arg == "perframe":
            ksf = [[[ctx.integer(f"k{f}_{i}_{a}", lo=-2, hi=2) for a in range(d)] for i in range(N)] for f in range(F)]
        else:
            ks = [[(ctx.integer(f"k{i}_{a}", lo=-2, hi=2) if (arg != "one" or i == 0) else 0) for a in range(d)] for i in range(N)]
            ksf = [ks] * F
        rows = sy["rows"]
        out["pos"] = [[[pos[f][i][a] + sum(ksf[f][i][b] * rows[b][a] for b in range(d)) for a in range(d)] for i in range(N)]
                      for f in range(F)]
    elif tr == "relabel":
        perm = list(arg)
        pmap = perm
        inv = [perm.index(k) for k in range(N)]
        out["pos"] = [[pos[f][inv[k]] for k in range(N)] for f in range(F)]
        out["types"] = [sy["types"][inv[k]] for k in range(N)]
    elif tr == "swap":
        out["types"] = [{1: 2, 2: 1}.get(t, t) for t in sy["types"]]
    elif tr == "axes":
        sigma = list(arg)
        amap = sigma
        out["pos"] = [[[pos[f][i][sigma[a]] for a in range(d)] for i in range(N)] for f in range(F)]
        out["rows"] = [[sy["rows"][sigma[a]][sigma[b]] for b in range(d)] for a in range(d)]
    elif tr == "rotate":
        al = ctx.angle("alpha")
        c, s = O.cos_sin(al)
        ax = arg if arg is not None else 2
        i0, i1 = [(1, 2), (2, 0), (0, 1)][ax] if d == 3 else (0, 1)

        def rot(p):
            q = list(p)
            q[i0] = c * p[i0] - s * p[i1]
            q[i1] = s * p[i0] + c * p[i1]
            return q
        out["pos"] = [[rot(pos[f][i]) for i in range(N)] for f in range(F)]
        out["rot"] = (c, s, i0, i1)
    elif tr == "dilate":
        lam = ctx.real("lam", positive=True)
        if not sym and not lam > 0:
            lam = 1.5
        out["pos"] = [[[lam * x for x in pos[f][i]] for i in range(N)] for f in range(F)]
        out["rows"] = [[lam * x for x in r] for r in sy["rows"]]
        out["scale"] = sy["scale"] * lam
    else:
        raise KeyError(tr)
    return out, pmap, amap


def exclude_ties(ctx, sy, ppp):
    """general position: distinct particles, no exact half-cell tie for any pair (reference min_image adds the assumption and
    creates the rint symbols the code will reuse)"""
    sym = ctx.mode == "sym"
    for f in range(sy["F"]):
        for i in range(sy["N"]):
            for j in range(i + 1, sy["N"]):
                v = C.min_image(ctx, [sy["pos"][f][j][a] - sy["pos"][f][i][a] for a in range(sy["d"])], sy["rows"], ppp)
                n2 = C.norm2(v)
                ctx.assume(O.gt(n2, 0) if sym else n2 > 1e-12)


# ------------------------------------------------------------------------------------------------ observables

def _nbfile(ctx, F, topo):
    p = os.path.join(ctx.tmpdir(), "nb.dat")
    with open(p, "w") as fh:
        for f in range(F):
            fh.write("id cn neighborlist\n")
            for i, lst in enumerate(topo):
                fh.write(" ".join([str(i + 1), str(len(lst))] + [str(j + 1) for j in lst]) + "\n")
    return p


def _parse_lists(path):
    frames, cur = [], None
    for line in open(path):
        tok = line.split()
        if not tok:
            continue
        if tok[0] == "id":
            cur = {}
            frames.append(cur)
        else:
            cur[int(tok[0]) - 1] = [int(t) - 1 for t in tok[2:]]
    return frames


def observe(ctx, obs, sy, ppp, P, run):
    """run the real analysis on system sy; returns a list of (name, value, kind) with kind in
    'global' | 'pp<k>' (particle index on axis k) | 'lists' (neighbour lists) | 'matrix' (N*d x N*d)"""
    ru = ctx.repo("PyMatterSim.reader.reader_utils")
    S = snapshots_of(ctx, ru, sy)
    d, N, F = sy["d"], sy["N"], sy["F"]
    pp = np.array(ppp)
    sc = sy["scale"]
    if obs == "gr":
        g = ctx.repo("PyMatterSim.static.gr")
        res = g.gr(S, ppp=pp, rdelta=P["delta"] * sc).getresults()
        return [(c, np.asarray(res[c].values), "global") for c in res.columns if c != "r"] + \
               [("r/scale", np.asarray([x / sc for x in res["r"].values], dtype=object), "global")]
    if obs == "sq":
        q = ctx.repo("PyMatterSim.static.sq")
        qv = np.array(P["qvec"])[:, P.get("amap", list(range(d)))]
        res = q.sq(S, qvector=qv).getresults()
        return [(c, np.asarray(res[c].values), "global") for c in res.columns]
    if obs in ("cut", "nn"):
        nbm = ctx.repo("PyMatterSim.neighbors.calculate_neighbors")
        path = os.path.join(ctx.tmpdir(), f"nl{run}.dat")
        if obs == "cut":
            nbm.cutoffneighbors(S, r_cut=P["rc"] * sc, ppp=pp, fnfile=path)
        else:
            nbm.Nnearests(S, N=P["Nn"], ppp=pp, fnfile=path)
        return [("lists", _parse_lists(path), "lists")]
    if obs == "boo2d":
        boo = ctx.repo("PyMatterSim.static.boo")
        nb = _nbfile(ctx, F, P["topo"])
        obj = boo.boo_2d(S, l=P["l"], neighborfile=nb, ppp=pp, Nmax=5)
        phi = obj.ParticlePhi
        if P.get("tr") != "rotate":
            # psi itself is invariant under translation, image shifts, relabelling and dilation
            re_ = np.empty(phi.shape, dtype=object)
            im_ = np.empty(phi.shape, dtype=object)
            for idx in np.ndindex(phi.shape):
                re_[idx], im_[idx] = O.re_im(phi[idx])
            return [("Re psi", re_, "pp1"), ("Im psi", im_, "pp1")]
        mod2 = np.empty(phi.shape, dtype=object)
        for idx in np.ndindex(phi.shape):
            re, im = O.re_im(phi[idx])
            mod2[idx] = re * re + im * im
        return [("|psi|^2", mod2, "pp1")]
    if obs == "boo3d":
        from checks import c09
        boo = ctx.repo("PyMatterSim.static.boo")
        nb = _nbfile(ctx, F, P["topo"])
        if P.get("opaque", True):
            spy = P.setdefault("_spy", None)
            if spy is None:
                spy = P["_spy"] = c09.Spy(ctx, boo, semantic=True)
            else:
                boo.__dict__["sph_harm_l"] = spy
        try:
            obj = boo.boo_3d(S, l=P["l"], neighborfile=nb, ppp=pp, Nmax=5)
        finally:
            if P.get("opaque", True):
                spy.restore()
        ql = obj.ql_Ql()
        Ql = obj.ql_Ql(coarse_graining=True)
        out = [("q_l", ql, "pp1"), ("Q_l", Ql, "pp1")]
        if P.get("w", True):
            w, wc = obj.w_W_cap()
            out += [("w_l", w, "pp1"), ("w-hat_l", wc, "pp1")]
        return out
    if obs == "tetra":
        ge = ctx.repo("PyMatterSim.static.geometric")
        return [("q_tetra", ge.q8_tetrahedral(S, ppp=pp), "pp1")]
    if obs == "relax":
        dyn = ctx.repo("PyMatterSim.dynamic.dynamics")
        D = dyn.Dynamics(xu_snapshots=S if P["mode"] == "xu" else None, x_snapshots=S if P["mode"] == "x" else None, dt=P["dt"],
                         ppp=pp, diameters=P["sig"], a=P["a"], cal_type="slow")
        res = D.relaxation(qconst=P["q"])
        return [(c, np.asarray(res[c].values), "global") for c in res.columns]
    if obs == "gyr":
        sh = ctx.repo("PyMatterSim.static.shape")
        res = sh.gyration_tensor(C.farr(ctx, sy["pos"][0]))
        return [("Rg", res[0], "global"), ("acylindricity", res[1] if d == 2 else res[2], "global")] + \
               ([("asphericity", res[1], "global"), ("anisotropy", res[3], "global")] if d == 3 else [])
    if obs == "pr":
        v = ctx.repo("PyMatterSim.static.vector")
        return [("participation ratio", v.participation_ratio(C.farr(ctx, sy["pos"][0])), "global")]
    if obs == "hessian":
        return _hessian(ctx, sy, S, pp, P, run)
    raise KeyError(obs)


def _hessian(ctx, sy, S, pp, P, run):
    hs = ctx.repo("PyMatterSim.static.hessians")
    sym = ctx.mode == "sym"
    out = os.path.join(ctx.tmpdir(), f"hess{run}")
    params = hs.InteractionParams(model_name=hs.ModelName.lennard_jones, ipl_n=0, ipl_A=1.0 if not sym else 1, harmonic_hertz_alpha=0)
    if sym:
        from symx import npf, pdf

        def eigh(M):
            nd = M.shape[0]
            ev = ctx.array(f"lam{run}", (nd,))
            vec = ctx.array(f"vec{run}", (nd, nd))
            return ev, vec
        npf.HOOKS["linalg.eigh"] = eigh
        npf.RECORD["save"].clear()
    try:
        obj = hs.HessianMatrix(S.snapshots[0], masses=P["mass"], epsilons=C.farr(ctx, P["eps"]), sigmas=C.farr(ctx, P["sig"]),
                               r_cuts=C.farr(ctx, P["rcs"]), ppp=pp, shiftpotential=True)
        obj.diagonalize_hessian(params, saveevecs=False, savehessian=True, outputfile=out)
    finally:
        if sym:
            npf.HOOKS.pop("linalg.eigh", None)
    if sym:
        saved = {os.path.basename(f): a for f, a in npf.RECORD["save"]}
        Hm = saved.get(f"hess{run}.hessianmatrix.npy")
    else:
        Hm = np.load(out + ".hessianmatrix.npy")
    return [("hessian", Hm, "matrix")]


# ------------------------------------------------------------------------------------------------ comparison

def compare(ctx, obs, tr, sy, out1, out2, pmap, amap, P):
    d, N = sy["d"], sy["N"]
    ctx.oblige(f"{obs}/{tr}: same outputs", [n for n, _, _ in out1] == [n for n, _, _ in out2])
    o2 = {n: (v, k) for n, v, k in out2}
    if tr == "swap":
        def ren(n):
            if n.startswith(("gr", "Sq")) and n[2:].isdigit():
                a, b = sorted({"1": "2", "2": "1"}.get(ch, ch) for ch in n[2:])
                return n[:2] + a + b
            return n
    else:
        def ren(n):
            return n
    for name, v1, kind in out1:
        if ren(name) not in o2:
            ctx.oblige(f"{obs}/{tr}: output {ren(name)} present", False)
            continue
        v2 = o2[ren(name)][0]
        if kind == "lists":
            ctx.oblige(f"{obs}/{tr}: frames", len(v1) == len(v2))
            for f, (a, b) in enumerate(zip(v1, v2)):
                for i in range(N):
                    want = [pmap[j] for j in a.get(i, [])]
                    got = b.get(pmap[i], None)
                    if obs == "nn" or tr in ("relabel",):
                        # order is by distance (ties excluded): identical sequences after mapping ids
                        ok = got == want if obs == "nn" else (got is not None and sorted(got) == sorted(want))
                    else:
                        ok = got == want
                    ctx.oblige(f"{obs}/{tr}: neighbours of particle {i} (frame {f})", ok)
            continue
        a1, a2 = np.asarray(v1, dtype=object), np.asarray(v2, dtype=object)
        if kind == "matrix":
            ctx.oblige(f"{obs}/{tr}: matrix shape", a1.shape == a2.shape == (N * d, N * d))
            if a1.shape != a2.shape:
                continue
            inv_a = [amap.index(k) for k in range(d)] if tr == "axes" else list(range(d))
            for i in range(N):
                for j in range(N):
                    for a in range(d):
                        for b in range(d):
                            # entry (i,a ; j,b) of the original equals entry (pmap i, a' ; pmap j, b') of the transformed one
                            aa, bb = (inv_a[a], inv_a[b])
                            ctx.oblige(f"{obs}/{tr}: H[{i}{a},{j}{b}]",
                                       O.eq(a1[i * d + a, j * d + b], a2[pmap[i] * d + aa, pmap[j] * d + bb]))
            continue
        if a1.shape != a2.shape:
            ctx.oblige(f"{obs}/{tr}: {name} shape", False)
            continue
        if kind.startswith("pp"):
            ax = int(kind[2:])
            for idx in np.ndindex(a1.shape):
                j = list(idx)
                j[ax] = pmap[idx[ax]]
                ctx.oblige(f"{obs}/{tr}: {name}{list(idx)}", O.eq(a1[idx], a2[tuple(j)]))
        else:
            for idx in np.ndindex(a1.shape):
                ctx.oblige(f"{obs}/{tr}: {name}{list(idx)}", O.eq(a1[idx], a2[idx]))


# ------------------------------------------------------------------------------------------------ the harness

def h_sym(ctx, obs, tr, d, N, F, types, cell, ppp, arg=None, fixed=0, params=None):
    ctx.covers({"gr": "PyMatterSim.static.gr.gr", "sq": "PyMatterSim.static.sq.sq", "cut": "PyMatterSim.neighbors.calculate_neighbors.cutoffneighbors",
                "nn": "PyMatterSim.neighbors.calculate_neighbors.Nnearests", "boo2d": "PyMatterSim.static.boo.boo_2d",
                "boo3d": "PyMatterSim.static.boo.boo_3d", "tetra": "PyMatterSim.static.geometric.q8_tetrahedral",
                "relax": "PyMatterSim.dynamic.dynamics.Dynamics.relaxation", "gyr": "PyMatterSim.static.shape.gyration_tensor",
                "pr": "PyMatterSim.static.vector.participation_ratio", "hessian": "PyMatterSim.static.hessians.HessianMatrix"}[obs],
               "PyMatterSim.utils.pbc.remove_pbc")
    sym = ctx.mode == "sym"
    P = dict(params or {})
    P["tr"] = tr
    sy = mk_system(ctx, d, N, F, types, cell, fixed=fixed, symcoords=P.get("symcoords"))
    # numeric parameters of the observables
    if obs == "gr":
        P["delta"] = ctx.real("delta", positive=True)
        if not sym and not P["delta"] > 0:
            P["delta"] = 1.0
        Ls = [sy["rows"][a][a] for a in range(d)]
        Lm = Ls[0]
        for x in Ls[1:]:
            Lm = O.If(O.le(x, Lm), x, Lm)
        ctx.assume(O.And(O.ge(Lm, 2 * P["delta"]), O.lt(Lm, 2 * P["delta"] * (P.get("Bmax", 2) + 1))))
    if obs == "cut":
        P["rc"] = ctx.real("rc", positive=True)
    if obs == "relax":
        P["dt"] = ctx.real("dt", positive=True)
        P["a"] = ctx.real("a", positive=True)
        P["q"] = ctx.real("q", positive=True)
        P["sig"] = {1: ctx.real("sig1", positive=True), 2: ctx.real("sig2", positive=True)}
        if not sym:
            for k in ("dt", "a", "q"):
                if not P[k] > 0:
                    P[k] = 1.0
            P["sig"] = {k: (v if v > 0 else 1.0) for k, v in P["sig"].items()}
        for k in range(1, F):
            for t0 in range(F - k):
                m2 = sum((sy["pos"][t0 + k][i][c] - sy["pos"][t0][i][c]) ** 2 for i in range(N) for c in range(d))
                ctx.assume(O.gt(m2, 0) if sym else m2 > 1e-12)
    if obs == "hessian":
        K = max(types)
        P["mass"] = {k + 1: ctx.real(f"m{k + 1}", positive=True) for k in range(K)}
        if not sym:
            P["mass"] = {k: (v if v > 0 else 1.0) for k, v in P["mass"].items()}
        P["eps"] = [[ctx.real(f"eps{min(a, b)}{max(a, b)}", positive=True) for b in range(K)] for a in range(K)]
        P["sig"] = [[ctx.real(f"sg{min(a, b)}{max(a, b)}", positive=True) for b in range(K)] for a in range(K)]
        P["rcs"] = [[ctx.real(f"rc{min(a, b)}{max(a, b)}", positive=True) for b in range(K)] for a in range(K)]
    if obs in ("gyr",):
        pts = sy["pos"][0]
        cen = [sum(p[a] for p in pts) / N for a in range(d)]
        rg2 = sum((p[a] - cen[a]) ** 2 for p in pts for a in range(d)) / N
        ctx.assume(O.And(O.gt(rg2, 0), O.Not(O.eq(rg2, 1))) if sym else (rg2 > 1e-9 and abs(rg2 - 1) > 1e-9))
    if obs == "pr":
        n2 = sum(x * x for p in sy["pos"][0] for x in p)
        ctx.assume(O.gt(n2, 0) if sym else n2 > 1e-12)
    if obs in ("gr", "cut", "nn", "boo2d", "boo3d", "tetra", "hessian") or (obs == "relax" and P.get("mode") == "x"):
        exclude_ties(ctx, sy, ppp)
    if obs == "relax" and P.get("mode") == "x":
        # wrapped mode: the displacements of one particle between two frames are minimum-imaged; away from ties, as above
        for f0 in range(F):
            for f1 in range(f0 + 1, F):
                for i in range(N):
                    C.min_image(ctx, [sy["pos"][f1][i][a] - sy["pos"][f0][i][a] for a in range(d)], sy["rows"], ppp)
    if obs == "boo3d":
        for f in range(F):
            for i, lst in enumerate(P["topo"]):
                for j in lst:
                    v = C.min_image(ctx, [sy["pos"][f][j][a] - sy["pos"][f][i][a] for a in range(3)], sy["rows"], ppp)
                    rho2 = v[0] * v[0] + v[1] * v[1]
                    ctx.assume(O.gt(rho2, 0) if sym else rho2 > 1e-10)
    if obs in ("cut", "nn", "tetra"):
        # general position: from every particle the (minimum-image) distances to the others are pairwise different, and none
        # equals the cut-off (lists are ordered by distance; a tie has no defined order)
        for f in range(F):
            for i in range(N):
                d2 = {j: C.norm2(C.min_image(ctx, [sy["pos"][f][j][a] - sy["pos"][f][i][a] for a in range(d)], sy["rows"], ppp))
                      for j in range(N) if j != i}
                js = sorted(d2)
                for x in range(len(js)):
                    if obs == "cut":
                        e = O.eq(d2[js[x]], P["rc"] * P["rc"])
                        ctx.assume(O.Not(e) if sym else abs(d2[js[x]] - P["rc"] ** 2) > 1e-9)
                    for y in range(x + 1, len(js)):
                        e = O.eq(d2[js[x]], d2[js[y]])
                        ctx.assume(O.Not(e) if sym else abs(d2[js[x]] - d2[js[y]]) > 1e-9)
    out1 = observe(ctx, obs, sy, ppp, P, 1)
    sy2, pmap, amap = transform(ctx, sy, tr, arg)
    P2 = dict(P)
    P2["amap"] = amap
    ppp2 = [ppp[amap[a]] for a in range(d)]
    if tr == "relabel" and "topo" in P:
        t2 = [None] * N
        for i, lst in enumerate(P["topo"]):
            t2[pmap[i]] = [pmap[j] for j in lst]
        P2["topo"] = t2
    out2 = observe(ctx, obs, sy2, ppp2, P2, 2)
    for n, v, k in out1[:3]:
        if k != "lists":
            ctx.output(n, v)
    compare(ctx, obs, tr, sy, out1, out2, pmap, amap, P)


# ------------------------------------------------------------------------------------------------ configurations

TOPO3 = [[1, 2], [0], [0, 1]]
PERMS3 = [p for p in permutations(range(3)) if list(p) != [0, 1, 2]]


def cfg(tier, seed):
    out = []
    two = dict(d=2, N=3, F=1, types=[1, 2, 1])
    per, opn = [1, 1], [0, 0]
    qv2 = [[1, 0], [0, 1], [1, 1], [2, -1]]
    # ---- g(r)
    for tr, cell, arg in (("translate", "sym-o", None), ("image", "o", None), ("image", "t-", None), ("swap", "sym-o", None),
                          ("axes", "sym-o", [1, 0]), ("dilate", "sym-o", None)):
        out.append(dict(obs="gr", tr=tr, cell=cell, ppp=per, arg=arg, params=dict(Bmax=2), **two))
    for p in (PERMS3 if tier == "thorough" else PERMS3[:2]):
        out.append(dict(obs="gr", tr="relabel", cell="sym-o", ppp=per, arg=list(p), params=dict(Bmax=2), **two))
    # ---- S(q) (concrete unequal-edge box)
    for tr, arg in (("translate", None), ("image", None), ("swap", None), ("axes", [1, 0]), ("relabel", [2, 0, 1])):
        out.append(dict(obs="sq", tr=tr, cell="o", ppp=per, arg=arg, params=dict(qvec=qv2), **two))
    # ---- neighbour lists
    one = dict(d=2, N=3, F=1, types=[1, 1, 1])
    for obs, extra in (("cut", {}), ("nn", dict(Nn=2))):
        for tr, cell, ppp, arg in (("translate", "sym-o", per, None), ("image", "t+", per, None), ("relabel", "sym-o", per, [1, 2, 0]),
                                   ("axes", "sym-o", per, [1, 0]), ("rotate", "sym-o", opn, None), ("dilate", "sym-o", per, None)):
            out.append(dict(obs=obs, tr=tr, cell=cell, ppp=ppp, arg=arg, params=dict(extra), **one))
    # ---- boo_2d |psi_l|
    for tr, cell, ppp, arg in (("translate", "sym-o", per, None), ("image", "t-", per, None), ("relabel", "sym-o", per, [2, 0, 1]),
                               ("rotate", "sym-o", opn, None), ("dilate", "sym-o", per, None)):
        out.append(dict(obs="boo2d", tr=tr, cell=cell, ppp=ppp, arg=arg, params=dict(l=(6 if tier == "thorough" else 4), topo=TOPO3), **one))
    # ---- boo_3d invariants
    three = dict(d=3, N=3, F=1, types=[1, 1, 1])
    for tr, cell, ppp, arg in (("translate", "o", [1, 1, 1], None), ("image", "t-", [1, 1, 1], None), ("dilate", "o", [0, 0, 0], None)):
        out.append(dict(obs="boo3d", tr=tr, cell=cell, ppp=ppp, arg=arg, params=dict(l=4, topo=TOPO3), **three))
    out.append(dict(obs="boo3d", tr="rotate", cell="o", ppp=[0, 0, 0], arg=2,
                    params=dict(l=1, topo=[[1], [0], [0]], opaque=False, w=False), **three))      # l=2 with the real table: worker ran out of resources in the first thorough run - outside the claim
    # ---- tetrahedral order (N=5, four concrete)
    tet = dict(d=3, N=5, F=1, types=[1] * 5, fixed=4)
    for tr, arg in (("translate", None), ("rotate", 0), ("dilate", None)):
        out.append(dict(obs="tetra", tr=tr, cell="o", ppp=[0, 0, 0], arg=arg, params=dict(symcoords=(1 if tier == "quick" else 2)), **tet))
    # ---- relaxation functions
    rel = dict(d=2, N=2, F=3, types=[1, 2])
    for tr, arg, mode, cell, ppp in (("translate", None, "xu", "o", opn), ("relabel", [1, 0], "xu", "o", opn), ("axes", [1, 0], "xu", "o", opn),
                                     ("image", "perframe", "x", "o", per), ("image", "perframe", "x", "t-", per)):
        out.append(dict(obs="relax", tr=tr, cell=cell, ppp=ppp, arg=arg, params=dict(mode=mode), **rel))
    # ---- shape descriptors, participation ratio
    for tr, arg in (("translate", None), ("rotate", None), ("relabel", [2, 0, 1])):
        out.append(dict(obs="gyr", tr=tr, cell="o", ppp=opn, arg=arg, d=2, N=3, F=1, types=[1, 1, 1]))
    for tr, arg in (("rotate", None), ("relabel", [1, 2, 0])):
        out.append(dict(obs="pr", tr=tr, cell="o", ppp=opn, arg=arg, d=2, N=3, F=1, types=[1, 1, 1]))
    # ---- Hessian matrix
    hes = dict(d=2, N=2, F=1, types=[1, 2])
    for tr, arg, cell, ppp in (("translate", None, "o", per), ("relabel", [1, 0], "o", per), ("axes", [1, 0], "o", per), ("image", None, "t-", per)):
        out.append(dict(obs="hessian", tr=tr, cell=cell, ppp=ppp, arg=arg, **hes))
    if tier == "thorough":
        out.append(dict(obs="gr", tr="image", cell="t+", ppp=[1, 1, 1], arg=None, params=dict(Bmax=1), d=3, N=3, F=1, types=[1, 2, 2]))
        out.append(dict(obs="gr", tr="axes", cell="sym-o", ppp=[1, 1, 1], arg=[2, 0, 1], params=dict(Bmax=1), d=3, N=3, F=1, types=[1, 2, 2]))
        out.append(dict(obs="boo3d", tr="relabel", cell="o", ppp=[1, 1, 1], arg=[1, 2, 0], params=dict(l=6, topo=TOPO3), **three))
        out.append(dict(obs="tetra", tr="rotate", cell="o", ppp=[0, 0, 0], arg=1, params=dict(symcoords=2), **tet))
        out.append(dict(obs="tetra", tr="rotate", cell="o", ppp=[0, 0, 0], arg=2, params=dict(symcoords=2), **tet))
        out.append(dict(obs="gyr", tr="rotate", cell="o", ppp=[0, 0, 0], arg=2, d=3, N=3, F=1, types=[1, 1, 1]))
    return out


# rint_pull_integers: rint(y + k) = rint(y) + k for integer k is applied as a rewrite; sound because the harness assumes every
# pair's fractional coordinates to be away from exact half-cell ties (exclude_ties)
HARNESSES = [H("symmetry", h_sym, cfg, timeout_ms=30000, abstract=True, budget_s=300, rint_pull_integers=True)]
