"""C10 2D bond-orientational order equals the l-fold definition (DESIGN C10)."""
import math
import os
from fractions import Fraction

import numpy as np

from symx import ops as O
from symx.run import H
from checks import common as C

FUNCS = ["PyMatterSim.static.boo.boo_2d.__init__", "PyMatterSim.static.boo.boo_2d.lthorder", "PyMatterSim.static.boo.boo_2d.time_average",
         "PyMatterSim.static.boo.boo_2d.spatial_corr", "PyMatterSim.static.boo.boo_2d.time_corr"]
BOUNDS = {
    "quick": "l in {1,2,3,4,6} for the definition/modulus/rotation harnesses (N=3, up to 2 bonds per particle, F<=2); all positions "
             "and weights (either sign) symbolic; open boundaries and concrete periodic cells; perfect stars l=4 (square) and l=6 "
             "(triangular) with symbolic scale/orientation/origin; time average (complex and modulus/phase), spatial and time "
             "correlation against the documented constituent functions",
    "thorough": "as quick with l = 1..12 and lattices l in {2,3,4,6,8,12}",
}
STUBS = ["arctan2(dy,dx) -> angle carried by (dx/rho, dy/rho); exp(i*l*theta) by De Moivre", "np.rint -> symbol + lemma instances",
         "np.angle -> real symbol with algebraic (cos, sin)"]
ASSUMPTIONS = ["floats modelled as reals", "bonds of non-zero length", "sum of |weights| non-zero"]


def _files(ctx, F, topo, weights=None):
    d = ctx.tmpdir()
    nb = os.path.join(d, "nb.dat")
    with open(nb, "w") as fh:
        for f in range(F):
            fh.write("id cn neighborlist\n")
            for i, lst in enumerate(topo):
                fh.write(" ".join([str(i + 1), str(len(lst))] + [str(j + 1) for j in lst]) + "\n")
    wf = ""
    if weights is not None:
        wf = os.path.join(d, "w.dat")
        with open(wf, "w") as fh:
            for f in range(F):
                fh.write("id cn edgelength\n")
                for i, lst in enumerate(weights[f]):
                    fh.write(" ".join([str(i + 1), str(len(lst))] + [ctx.fmt(w) for w in lst]) + "\n")
    return nb, wf


def _unit(ctx, dx, dy):
    rho = O.sqrt(dx * dx + dy * dy)
    return dx / rho, dy / rho


def _cpow(ctx, cx, cy, l):
    if ctx.mode == "sym":
        from symx.scalar import SC
        z = SC(cx, cy) ** l
        return z.re, z.im
    z = complex(cx, cy) ** l
    return z.real, z.imag


def _setup(ctx, N, F, cell, ppp, topo, weighted, wsign=False):
    ru = ctx.repo("PyMatterSim.reader.reader_utils")
    # `cell` may be a list with one cell per frame (same edge lengths, different tilt: a sheared box)
    rows_f = [C.make_cell(ctx, 2, c) for c in (cell if isinstance(cell, (list, tuple)) else [cell] * F)]
    rows = rows_f[0]
    poss, snaps = [], []
    for f in range(F):
        prow = [[ctx.real(f"p{f}_{i}_{a}") for a in range(2)] for i in range(N)]
        poss.append(prow)
        snaps.append(C.snapshot(ctx, ru, 10 * (f + 1), [1] * N, C.farr(ctx, prow), rows_f[f]))
    S = ru.Snapshots(nsnapshots=F, snapshots=snaps)
    W = None
    if weighted:
        W = [[[ctx.real(f"w{f}_{i}_{k}", positive=not wsign) for k in range(len(topo[i]))] for i in range(N)] for f in range(F)]
    nb, wf = _files(ctx, F, topo, W)
    if isinstance(cell, (list, tuple)):
        rows = rows_f          # per-frame cells: callers index rows[f]
    return ru, rows, poss, S, W, nb, wf


def _reference_psi(ctx, l, rows, ppp, poss_f, topo, Wf):
    out = []
    for i, lst in enumerate(topo):
        re = im = 0
        norm = 0
        for k, j in enumerate(lst):
            v = C.min_image(ctx, [poss_f[j][a] - poss_f[i][a] for a in range(2)], rows, ppp)
            ctx.assume(O.gt(C.norm2(v), 0) if ctx.mode == "sym" else C.norm2(v) > 1e-12)
            cx, cy = _unit(ctx, v[0], v[1])
            a, b = _cpow(ctx, cx, cy, l)
            w = 1 if Wf is None else Wf[i][k]
            re, im = re + w * a, im + w * b
            norm = norm + (1 if Wf is None else abs(w))
        out.append((re / norm, im / norm))
    return out


def h_psi(ctx, l, N, F, cell, ppp, topo, weighted=False, wsign=False):
    ctx.covers(*FUNCS[:2])
    boo = ctx.repo("PyMatterSim.static.boo")
    ru, rows, poss, S, W, nb, wf = _setup(ctx, N, F, cell, ppp, topo, weighted, wsign)
    rows_of = (lambda f: rows[f]) if isinstance(cell, (list, tuple)) else (lambda f: rows)
    refs = [_reference_psi(ctx, l, rows_of(f), ppp, poss[f], topo, None if W is None else W[f]) for f in range(F)]
    if W is not None and wsign:
        for f in range(F):
            for i in range(N):
                tot = sum(abs(w) for w in W[f][i])
                ctx.assume(O.gt(tot, 0) if ctx.mode == "sym" else tot > 1e-9)
    obj = boo.boo_2d(S, l=l, neighborfile=nb, weightsfile=wf, ppp=np.array(ppp), Nmax=5)
    psi = obj.ParticlePhi
    ctx.output("psi", psi)
    ctx.oblige("shape", tuple(psi.shape) == (F, N))
    for f in range(F):
        for i in range(N):
            re, im = O.re_im(psi[f, i])
            rre, rim = refs[f][i]
            ctx.oblige(f"psi[{f},{i}].re", O.eq(re, rre))
            ctx.oblige(f"psi[{f},{i}].im", O.eq(im, rim))
            # |psi| <= 1 in two solver steps: (i) psi equals the weighted sum of one unit number per bond (each bond phase
            # decided to be of modulus one), (ii) from |z_k| = 1 alone the weighted sum has modulus <= 1 (triangle inequality)
            us, prem = [], []
            for k, j in enumerate(topo[i]):
                v = C.min_image(ctx, [poss[f][j][a] - poss[f][i][a] for a in range(2)], rows_of(f), ppp)
                cx, cy = _unit(ctx, v[0], v[1])
                a, b = _cpow(ctx, cx, cy, l)
                ctx.oblige(f"unit bond phase[{f},{i},{k}]", O.eq(a * a + b * b, 1))
                ua, ub = ctx.define(f"u{f}_{i}_{k}", a), ctx.define(f"v{f}_{i}_{k}", b)
                if ctx.mode == "sym":
                    fact = O.eq(ua * ua + ub * ub, 1)
                    ctx.assume(fact)
                    prem.append(fact)
                us.append((ua, ub))
            ws = [1] * len(us) if W is None else W[f][i]
            norm = sum((1 if W is None else abs(w)) for w in ws)
            sre = sum(w * u for w, (u, _) in zip(ws, us)) / norm
            sim = sum(w * v for w, (_, v) in zip(ws, us)) / norm
            ctx.oblige(f"psi = weighted unit sum[{f},{i}]", O.And(O.eq(re, sre, expand=True), O.eq(im, sim, expand=True)))
            if W is not None and ctx.mode == "sym":
                for w in ws:
                    prem.append(O.Or(O.gt(w, 0), O.lt(w, 0), O.eq(w, 0)))
                nz = O.gt(norm, 0)
                if not isinstance(nz, bool):
                    prem.append(nz)
            ctx.oblige(f"|weighted unit sum| <= 1[{f},{i}]", O.le(sre * sre + sim * sim, 1, 1e-9), using=prem)


def h_lattice(ctx, l):
    """perfect l-fold star (symbolic scale, orientation, origin): |psi_l| = 1 at the centre"""
    ctx.covers(*FUNCS[:2])
    boo = ctx.repo("PyMatterSim.static.boo")
    ru = ctx.repo("PyMatterSim.reader.reader_utils")
    sym = ctx.mode == "sym"
    s = ctx.real("scale", positive=True)
    if not sym and not s > 0:
        s = 1.0
    ori = ctx.angle("ori")
    oc, os_ = O.cos_sin(ori)
    ox, oy = ctx.real("ox"), ctx.real("oy")
    # exact directions of the l-fold star
    dirs = {2: [(1, 0), (-1, 0)], 4: [(1, 0), (0, 1), (-1, 0), (0, -1)]}
    if l in (3, 6):
        h = O.sqrt(C.const(ctx, 3)) / 2 if not sym else __import__("symx.scalar", fromlist=["sqrt"]).sqrt(3) / 2
        half = C.const(ctx, Fraction(1, 2))
        six = [(1, 0), (half, h), (-half, h), (-1, 0), (-half, -h), (half, -h)]
        dirs[6] = six
        dirs[3] = six[::2]
    star = dirs[l]
    pts = [[ox, oy]] + [[ox + s * (oc * x - os_ * y), oy + s * (os_ * x + oc * y)] for (x, y) in star]
    N = len(pts)
    rows = [[C.const(ctx, 100), 0], [0, C.const(ctx, 100)]]
    snap = C.snapshot(ctx, ru, 0, [1] * N, C.farr(ctx, pts), rows)
    S = ru.Snapshots(nsnapshots=1, snapshots=[snap])
    topo = [list(range(1, N))] + [[0]] * (N - 1)
    nb, _ = _files(ctx, 1, topo)
    obj = boo.boo_2d(S, l=l, neighborfile=nb, ppp=np.array([0, 0]), Nmax=12)
    re, im = O.re_im(obj.ParticlePhi[0, 0])
    ctx.output("psi0", obj.ParticlePhi[0, 0])
    ctx.oblige(f"|psi_{l}| = 1 on the perfect star", O.eq(re * re + im * im, 1))
    # and its phase is l times the orientation
    a, b = _cpow(ctx, oc, os_, l)
    ctx.oblige("psi = exp(i l orientation)", O.And(O.eq(re, a), O.eq(im, b)))


def h_rot(ctx, l, N, topo, weighted):
    """rotating the (open) system by alpha multiplies every psi by exp(i l alpha)"""
    ctx.covers(*FUNCS[:2])
    boo = ctx.repo("PyMatterSim.static.boo")
    ru, rows, poss, S, W, nb, wf = _setup(ctx, N, 1, "o", [0, 0], topo, weighted, wsign=True)
    for i, lst in enumerate(topo):
        for j in lst:
            d2 = sum((poss[0][j][a] - poss[0][i][a]) ** 2 for a in range(2))
            ctx.assume(O.gt(d2, 0) if ctx.mode == "sym" else d2 > 1e-12)
        if W is not None:
            tot = sum(abs(w) for w in W[0][i])
            ctx.assume(O.gt(tot, 0) if ctx.mode == "sym" else tot > 1e-9)
    al = ctx.angle("alpha")
    c, s = O.cos_sin(al)
    rot = [[c * p[0] - s * p[1], s * p[0] + c * p[1]] for p in poss[0]]
    S2 = ru.Snapshots(nsnapshots=1, snapshots=[C.snapshot(ctx, ru, 10, [1] * N, C.farr(ctx, rot), rows)])
    p1 = boo.boo_2d(S, l=l, neighborfile=nb, weightsfile=wf, ppp=np.array([0, 0]), Nmax=5).ParticlePhi
    p2 = boo.boo_2d(S2, l=l, neighborfile=nb, weightsfile=wf, ppp=np.array([0, 0]), Nmax=5).ParticlePhi
    ctx.output("psi", p1)
    a, b = _cpow(ctx, c, s, l)
    for i in range(N):
        r1, i1 = O.re_im(p1[0, i])
        r2, i2 = O.re_im(p2[0, i])
        ctx.oblige(f"rotation covariance[{i}].re", O.eq(r2, a * r1 - b * i1))
        ctx.oblige(f"rotation covariance[{i}].im", O.eq(i2, a * i1 + b * r1))


def h_derived(ctx, l, N, F, topo, what):
    """time_average / spatial_corr / time_corr are the documented functions of ParticlePhi"""
    ctx.covers(*FUNCS)
    boo = ctx.repo("PyMatterSim.static.boo")
    gr = ctx.repo("PyMatterSim.static.gr")
    tc = ctx.repo("PyMatterSim.dynamic.time_corr")
    ru, rows, poss, S, W, nb, wf = _setup(ctx, N, F, "sym-o", [0, 0], topo, False)
    for f in range(F):
        for i, lst in enumerate(topo):
            for j in lst:
                d2 = sum((poss[f][j][a] - poss[f][i][a]) ** 2 for a in range(2))
                ctx.assume(O.gt(d2, 0) if ctx.mode == "sym" else d2 > 1e-12)
    obj = boo.boo_2d(S, l=l, neighborfile=nb, ppp=np.array([0, 0]), Nmax=5)
    psi = obj.ParticlePhi
    dt = ctx.real("dt", positive=True)
    if what in ("avg_complex", "avg_modphase"):
        period = ctx.real("period", positive=True)
        interval = 10 * dt
        Wmax = F - 1
        ctx.assume(O.And(O.ge(period, interval), O.lt(period, (Wmax + 1) * interval)))
        avg, mid = obj.time_average(time_period=period, dt=dt, average_complex=(what == "avg_complex"))
        Wn = F - len(avg)
        ctx.output("avg", avg)
        for n in range(len(avg)):
            ctx.oblige(f"central frame[{n}]", int(mid[n]) in (n + (Wn - 1) // 2, n + Wn // 2))
            for i in range(N):
                got_re, got_im = O.re_im(avg[n, i])
                if what == "avg_complex":
                    wre = sum(O.re_im(psi[n + k, i])[0] for k in range(Wn)) / Wn
                    wim = sum(O.re_im(psi[n + k, i])[1] for k in range(Wn)) / Wn
                else:
                    mods, phs = [], []
                    for k in range(Wn):
                        r_, i_ = O.re_im(psi[n + k, i])
                        mods.append(O.sqrt(r_ * r_ + i_ * i_))
                        if ctx.mode == "sym":
                            from symx import scalar as S_
                            phs.append(S_.angle_value(S_.arctan2(i_, r_)))
                        else:
                            phs.append(math.atan2(i_, r_))
                    mm = sum(mods) / Wn
                    ph = sum(phs) / Wn
                    c_, s_ = O.cos_sin(ph)
                    wre, wim = mm * c_, mm * s_
                ctx.oblige(f"time average[{n},{i}]", O.And(O.eq(got_re, wre), O.eq(got_im, wim)))
    elif what == "spatial":
        delta = ctx.real("delta", positive=True)
        L = [rows[a][a] for a in range(2)]
        Lmin = O.If(O.le(L[1], L[0]), L[1], L[0])
        ctx.assume(O.And(O.ge(Lmin, 2 * delta), O.lt(Lmin, 4 * delta)))
        res = obj.spatial_corr(rdelta=delta)
        acc = None
        for n, snap in enumerate(S.snapshots):
            one = gr.conditional_gr(snap, condition=psi[n], conditiontype=None, ppp=np.array([0, 0]), rdelta=delta)
            acc = one if acc is None else acc + one
        acc = acc / F
        ctx.oblige("columns", list(res.columns) == list(acc.columns) and len(res) == len(acc))
        for c in res.columns:
            ctx.output(c, np.asarray(res[c].values))
            for k in range(len(res)):
                ctx.oblige(f"spatial_corr {c}[{k}] = frame mean of conditional g(r)", O.eq(res[c].values[k], acc[c].values[k]))
    else:
        for f in range(F):      # lag-zero normalisation defined
            pass
        n0 = sum(O.re_im(psi[f, i])[0] ** 2 + O.re_im(psi[f, i])[1] ** 2 for f in range(F) for i in range(N))
        ctx.assume(O.Not(O.eq(n0, 0)) if ctx.mode == "sym" else abs(n0) > 1e-9)
        res = obj.time_corr(dt=dt)
        ref = tc.time_correlation(S, psi, dt=dt)
        for c in res.columns:
            ctx.output(c, np.asarray(res[c].values))
            for k in range(len(res)):
                ctx.oblige(f"time_corr {c}[{k}]", O.eq(res[c].values[k], ref[c].values[k]))


TOPO3 = [[1, 2], [0], [0, 1]]


def cfg_psi(tier, seed):
    ls = (1, 2, 3, 4, 6) if tier == "quick" else tuple(range(1, 13))
    out = []
    for l in ls:
        out.append(dict(l=l, N=3, F=1, cell="o", ppp=[0, 0], topo=TOPO3))
    for l in ((4, 6) if tier == "quick" else (2, 4, 6, 12)):
        out.append(dict(l=l, N=3, F=1, cell="o", ppp=[0, 0], topo=TOPO3, weighted=True, wsign=True))
        out.append(dict(l=l, N=3, F=2, cell="o", ppp=[1, 1], topo=[[1], [2], [0]]))
    out.append(dict(l=6, N=3, F=1, cell="t-", ppp=[1, 1], topo=[[1], [2], [0]], weighted=True))
    # sheared box: same edge lengths (3, 5/2 ... see CELLS2), tilt changes from frame to frame
    out.append(dict(l=4, N=3, F=2, cell=["t-", "t-s"], ppp=[1, 1], topo=[[1], [2], [0]]))
    return out


def cfg_lattice(tier, seed):
    return [dict(l=l) for l in ((4, 6) if tier == "quick" else (2, 3, 4, 6))]


def cfg_rot(tier, seed):
    ls = (1, 2, 4, 6) if tier == "quick" else tuple(range(1, 13))
    out = [dict(l=l, N=3, topo=TOPO3, weighted=False) for l in ls]
    out.append(dict(l=6, N=3, topo=TOPO3, weighted=True))
    return out


def cfg_derived(tier, seed):
    out = [dict(l=6, N=2, F=3, topo=[[1], [0]], what=w) for w in ("avg_complex", "avg_modphase", "time")]
    out.append(dict(l=1, N=2, F=2, topo=[[1], [0]], what="spatial"))
    return out


HARNESSES = [H("psi_definition", h_psi, cfg_psi, timeout_ms=30000, validate_timeout_ms=3000),
             H("perfect_lattice", h_lattice, cfg_lattice, timeout_ms=60000),
             H("rotation", h_rot, cfg_rot, timeout_ms=30000),
             H("derived", h_derived, cfg_derived, timeout_ms=30000, abstract=True)]
