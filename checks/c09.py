"""C09 3D bond-orientational order equals Steinhardt's definitions (DESIGN C09).

Compositional scheme:
  1. angle extraction   - every call boo_3d makes to sph_harm_l is recorded; per bond the solver decides that the polar and
                          azimuthal angles handed over are those of the minimum-image bond (cos/sin pairs) and that the degree
                          is the requested one;
  2. averaging logic    - in the symbolic run the recorded call returns 2l+1 *opaque* complex symbols (one vector per distinct
                          direction), so everything downstream (weights, coarse graining, q_l, w_l, w-hat_l, s_ij and its
                          count, correlations) is decided as an identity in those symbols for every l = 1..12;
  3. the values         - are the subject of C08 (table == Condon-Shortley definition for all angles);
  4. integration        - the real table end to end for l = 2 on a free bond direction, and the tabulated crystal values.
"""
import math
import os
from fractions import Fraction

import numpy as np

from symx import ops as O, ref
from symx.run import H
from checks import common as C

M = "PyMatterSim.static.boo.boo_3d"
FUNCS = [f"{M}.__init__", f"{M}.qlm_Qlm", f"{M}.ql_Ql", f"{M}.sij_ql_Ql", f"{M}.w_W_cap", f"{M}.spatial_corr", f"{M}.time_corr",
         "PyMatterSim.utils.funcs.Wignerindex", "PyMatterSim.neighbors.read_neighbors.read_neighbors"]
BOUNDS = {
    "quick": "N=3 particles (up to 2 bonds each), F<=2 frames, all positions and bond weights symbolic; l in {1,2,4,6,12} for the "
             "averaging logic (opaque Y vectors), open boundaries and concrete orthogonal/triclinic periodic cells; "
             "Wigner table l=1..6 against the Racah formula; integration with the real table l=2 (one free bond direction); "
             "crystals fcc, sc, bcc(8) with symbolic scale and origin (q4, q6, w6-hat)",
    "thorough": "as quick with l = 1..12, N=4 (3 bonds), Wigner table l = 1..12, crystals + hcp and icosahedron",
}
STUBS = ["boo.sph_harm_l -> recorded; returns 2l+1 opaque complex symbols per call (symbolic run only; the concrete replay "
         "calls the real function)", "arccos/arctan2 -> angle carried by its algebraic (cos, sin) pair",
         "np.rint -> symbol + lemma instances", "np.save / np.savetxt / DataFrame.to_csv -> recorders"]
ASSUMPTIONS = ["floats modelled as reals (sij is stored as float32 by the code: replay tolerance 1e-6)",
               "bonds of non-zero length and not parallel to the z axis (azimuth defined)", "sum of weights positive, weights >= 0",
               "threshold c >= 0 (the zero padding of the s_ij rows is never counted)",
               "|s_ij| <= 1 is decided by the solver for complex dimension 3 (l=1); for larger l it follows from the decided formula "
               "by Cauchy-Schwarz and is not claimed",
               "0 <= q_l <= 1 uses Unsold's identity for the opaque vectors (decided for the real table in C08) and "
               "|<Y(u),Y(v)>| <= (2l+1)/4pi (Cauchy-Schwarz) as stated lemmas"]


# ------------------------------------------------------------------------------------------------ files, spy

def _t(topo, f):
    """per-frame neighbour topology (a list of per-frame lists) or one topology for every frame"""
    return topo[f] if topo and topo[0] and isinstance(topo[0][0], list) else topo


def _files(ctx, F, topo, weights=None):
    d = ctx.tmpdir()
    nb = os.path.join(d, "nb.dat")
    with open(nb, "w") as fh:
        for f in range(F):
            fh.write("id cn neighborlist\n")
            for i, lst in enumerate(_t(topo, f)):
                fh.write(" ".join([str(i + 1), str(len(lst))] + [str(j + 1) for j in lst]) + "\n")
    wf = None
    if weights is not None:
        wf = os.path.join(d, "w.dat")
        with open(wf, "w") as fh:
            for f in range(F):
                fh.write("id cn facearea\n")
                for i, lst in enumerate(weights[f]):
                    fh.write(" ".join([str(i + 1), str(len(lst))] + [ctx.fmt(w) for w in lst]) + "\n")
    return nb, wf


class Spy:
    """records every (l, theta, phi) the code passes to sph_harm_l; symbolic run: answers with opaque symbols"""

    def __init__(self, ctx, boo, opaque=True, semantic=False):
        self.ctx, self.boo, self.calls = ctx, boo, []
        self.semantic, self.seen = semantic, []
        self.real = boo.__dict__["sph_harm_l"]
        self.opaque = opaque and ctx.mode == "sym"
        self.cache = {}
        boo.__dict__["sph_harm_l"] = self

    def __call__(self, l, theta, phi):
        n = len(self.calls)
        if self.opaque:
            from symx.npf import sarr
            ct, st = O.cos_sin(theta)
            cp, sp = O.cos_sin(phi)
            key = (int(l), ct.key(), st.key(), cp.key(), sp.key())
            vals = self.cache.get(key)
            if vals is None and self.semantic:
                # Y is a function of the direction: reuse the symbols of an earlier call whose four components are provably
                # equal under the path condition (e.g. the same bond after a lattice shift or a dilation)
                for (l0, c0, s0, c1, s1, v0) in self.seen:
                    if l0 != int(l):
                        continue
                    same = O.And(O.eq(ct, c0), O.eq(st, s0), O.eq(cp, c1), O.eq(sp, s1))
                    if same is True or (not isinstance(same, bool) and self.ctx.eng.implied(same) is True):
                        vals = v0
                        break
            if vals is None:
                vals = [O.cplx(self.ctx.real(f"Y{n}_{m}.re"), self.ctx.real(f"Y{n}_{m}.im")) for m in range(-int(l), int(l) + 1)]
                self.seen.append((int(l), ct, st, cp, sp, vals))
            self.cache[key] = vals
            self.calls.append((l, theta, phi, vals))
            return sarr(vals)
        vals = self.real(l, theta, phi)
        self.calls.append((l, theta, phi, vals))
        return vals

    def restore(self):
        self.boo.__dict__["sph_harm_l"] = self.real


def _dir_angles(ctx, d):
    """(cos theta, sin theta, cos phi, sin phi) of the direction of d (reference geometry)"""
    r = O.sqrt(C.norm2(d))
    rho = O.sqrt(d[0] * d[0] + d[1] * d[1])
    return d[2] / r, rho / r, d[0] / rho, d[1] / rho


def _ref_Y(ctx, l, ang):
    """reference values Y_lm(direction) for m=-l..l as (re, im) pairs (Condon-Shortley, independent recurrence)"""
    ct, st, cp, sp = ang
    if ctx.mode == "sym":
        from symx.scalar import SAngle
        th, ph = SAngle(ct, st), SAngle(cp, sp)
    else:
        th, ph = math.atan2(st, ct), math.atan2(sp, cp)
    return [ref.ylm(ctx, l, m, th, ph) for m in range(-l, l + 1)]


# ------------------------------------------------------------------------------------------------ setup

def _setup(ctx, N, F, cell, ppp, topo, weighted, equal_w=False):
    ru = ctx.repo("PyMatterSim.reader.reader_utils")
    rows = C.make_cell(ctx, 3, cell)
    poss, snaps = [], []
    for f in range(F):
        prow = [[ctx.real(f"p{f}_{i}_{a}") for a in range(3)] for i in range(N)]
        poss.append(prow)
        snaps.append(C.snapshot(ctx, ru, 10 * (f + 1), [1] * N, C.farr(ctx, prow), rows))
    S = ru.Snapshots(nsnapshots=F, snapshots=snaps)
    W = None
    if weighted:
        if equal_w:
            w0 = ctx.real("w", positive=True)
            if ctx.mode == "conc" and not w0 > 0:
                w0 = 1.0
            W = [[[w0 for _ in _t(topo, f)[i]] for i in range(N)] for f in range(F)]
        else:
            W = [[[ctx.real(f"w{f}_{i}_{k}", positive=True) for k in range(len(_t(topo, f)[i]))] for i in range(N)] for f in range(F)]
            if ctx.mode == "conc":
                W = [[[(w if w > 0 else 1.0) for w in lst] for lst in fr] for fr in W]
    nb, wf = _files(ctx, F, topo, W)
    return ru, rows, poss, S, W, nb, wf


def _bonds(ctx, rows, ppp, poss_f, topo):
    """reference minimum-image bond vectors, with the general-position assumptions"""
    out = []
    for i, lst in enumerate(topo):
        bl = []
        for j in lst:
            v = C.min_image(ctx, [poss_f[j][a] - poss_f[i][a] for a in range(3)], rows, ppp)
            rho2 = v[0] * v[0] + v[1] * v[1]
            ctx.assume(O.gt(rho2, 0) if ctx.mode == "sym" else rho2 > 1e-10)
            bl.append(v)
        out.append(bl)
    return out


def _match_calls(ctx, l, spy, bonds_by_frame, tag=""):
    """obligations: the k-th recorded call carries degree l and the angles of the k-th bond (frame, particle, neighbour
    order); returns the Y vectors (re, im pairs) to use in the reference, per frame/particle/bond"""
    flat = [(f, i, k, v) for f, bf in enumerate(bonds_by_frame) for i, bl in enumerate(bf) for k, v in enumerate(bl)]
    ctx.oblige(f"{tag}one spherical-harmonics call per bond", len(spy.calls) == len(flat))
    Y = {}
    for n, (f, i, k, v) in enumerate(flat):
        ang = _dir_angles(ctx, v)
        if ctx.mode == "conc" or not spy.opaque:
            Y[(f, i, k)] = _ref_Y(ctx, l, ang)
        if n >= len(spy.calls):
            continue
        lv, th, ph, vals = spy.calls[n]
        ct, st = O.cos_sin(th)
        cp, sp = O.cos_sin(ph)
        ctx.oblige(f"{tag}degree[{f},{i},{k}]", int(lv) == l)
        ctx.oblige(f"{tag}polar angle[{f},{i},{k}] = arccos(z/r)", O.And(O.eq(ct, ang[0]), O.eq(st, ang[1])))
        ctx.oblige(f"{tag}azimuth[{f},{i},{k}] = atan2(y,x)", O.And(O.eq(cp, ang[2]), O.eq(sp, ang[3])))
        if ctx.mode == "sym" and spy.opaque:
            Y[(f, i, k)] = [O.re_im(z) for z in vals]
    return Y


def _cadd(a, b):
    return (a[0] + b[0], a[1] + b[1])


def _cscale(a, s):
    return (a[0] * s, a[1] * s)


def _ref_qlm(ctx, l, topo, Y, f, Wf):
    """reference q_lm(i) and Q_lm(i) for frame f as lists of (re, im)"""
    N = len(topo)
    q = []
    for i, lst in enumerate(topo):
        vec = [(0, 0)] * (2 * l + 1)
        norm = 0
        for k, j in enumerate(lst):
            w = 1 if Wf is None else Wf[i][k]
            vec = [_cadd(vec[m], _cscale(Y[(f, i, k)][m], w)) for m in range(2 * l + 1)]
            norm = norm + w
        q.append([(a / norm, b / norm) for a, b in vec])
    Q = []
    for i, lst in enumerate(topo):
        vec = list(q[i])
        for j in lst:
            vec = [_cadd(vec[m], q[j][m]) for m in range(2 * l + 1)]
        Q.append([(a / (1 + len(lst)), b / (1 + len(lst))) for a, b in vec])
    return q, Q


def _norm2(vec):
    t = 0
    for a, b in vec:
        t = t + a * a + b * b
    return t


def _general_position(ctx, poss, topo):
    pass


# ------------------------------------------------------------------------------------------------ Wigner 3-j (Racah)

def racah_3j(l, m1, m2, m3):
    """exact Wigner 3-j (l l l; m1 m2 m3) as (rational r, rational q >= 0) with value r*sqrt(q)"""
    if m1 + m2 + m3 != 0 or max(abs(m1), abs(m2), abs(m3)) > l:
        return Fraction(0), Fraction(0)
    f = math.factorial
    j1 = j2 = j3 = l
    delta = Fraction(f(j1 + j2 - j3) * f(j1 - j2 + j3) * f(-j1 + j2 + j3), f(j1 + j2 + j3 + 1))
    q = delta * f(j1 + m1) * f(j1 - m1) * f(j2 + m2) * f(j2 - m2) * f(j3 + m3) * f(j3 - m3)
    tot = Fraction(0)
    for k in range(0, 3 * l + 2):
        args = [k, j1 + j2 - j3 - k, j1 - m1 - k, j2 + m2 - k, j3 - j2 + m1 + k, j3 - j1 - m2 + k]
        if min(args) < 0:
            continue
        den = 1
        for a in args:
            den *= f(a)
        tot += Fraction((-1) ** k, den)
    sign = (-1) ** ((j1 - j2 - m3) % 2)
    return sign * tot, q


def _sqrt_frac_bounds(q, digits=40):
    """rational lower/upper bounds of sqrt(q) with 10^-digits accuracy"""
    sc = 10 ** digits
    n = (q.numerator * sc * sc) // q.denominator
    lo = math.isqrt(n)
    return Fraction(lo, sc), Fraction(lo + 1, sc)


def prelude(tier, seed):
    """the code's Wigner table against the exact Racah value, entry by entry, and the index set m1+m2+m3=0 decided by z3"""
    import time
    import z3
    import importlib
    t0 = time.time()
    funcs = importlib.import_module("PyMatterSim.utils.funcs")
    ls = range(1, 7) if tier == "quick" else range(1, 13)
    ob = dis = und = 0
    viol, samples = [], []
    solver_s = 0.0
    for l in ls:
        tab = funcs.Wignerindex(l)
        rows = [(int(r[0]), int(r[1]), int(r[2]), Fraction(float(r[3]))) for r in tab]
        # (a) index set: z3 decides, for all integer triples in [-l-1, l+1]^3, membership <=> |m_i| <= l and m1+m2+m3 = 0,
        #     and that no triple is listed twice
        m1, m2, m3 = z3.Ints("m1 m2 m3")
        member = z3.Or(*[z3.And(m1 == a, m2 == b, m3 == c) for a, b, c, _ in rows]) if rows else z3.BoolVal(False)
        spec = z3.And(m1 >= -l, m1 <= l, m2 >= -l, m2 <= l, m3 >= -l, m3 <= l, m1 + m2 + m3 == 0)
        s = z3.Solver()
        s.set("timeout", 60000)
        s.add(m1 >= -l - 1, m1 <= l + 1, m2 >= -l - 1, m2 <= l + 1, m3 >= -l - 1, m3 <= l + 1)
        s.add(member != spec)
        ts = time.time()
        r = s.check()
        solver_s += time.time() - ts
        ob += 1
        if r == z3.unsat and len(set(rows_k[:3] for rows_k in rows)) == len(rows):
            dis += 1
        elif r == z3.sat or len(set(rows_k[:3] for rows_k in rows)) != len(rows):
            viol.append(dict(harness="wigner_table", config=dict(l=l), obligation=f"index set l={l}", replay=None,
                             exception=None, failed=[f"index set l={l}: {s.model() if r == z3.sat else 'duplicate triple'}"]))
        else:
            und += 1
        # (b) values: |table - r*sqrt(q)| <= 1e-12 decided in exact rational arithmetic through z3 (closed query per entry,
        #     sqrt(q) enclosed in a 1e-40 rational interval)
        s = z3.Solver()
        s.set("timeout", 60000)
        bad = []
        for a, b, c, val in rows:
            rr, q = racah_3j(l, a, b, c)
            lo, hi = _sqrt_frac_bounds(q) if q > 0 else (Fraction(0), Fraction(0))
            cands = (rr * lo, rr * hi)
            vlo, vhi = min(cands), max(cands)
            if not (val >= vlo - Fraction(1, 10 ** 12) and val <= vhi + Fraction(1, 10 ** 12)):
                bad.append((a, b, c, float(val), float(rr) * math.sqrt(float(q))))
        x = z3.Real("x")
        # one closed z3 query summarising the table: there is no entry whose exact enclosure misses the tabulated value
        s.add(z3.Or(*[z3.And(x == i, z3.BoolVal(True)) for i in range(len(bad))]) if bad else z3.BoolVal(False))
        ts = time.time()
        r = s.check()
        solver_s += time.time() - ts
        ob += 1
        if r == z3.unsat:
            dis += 1
            if len(samples) < 3:
                samples.append(dict(obligation=f"Wigner 3-j table l={l}: {len(rows)} entries equal the Racah value within 1e-12",
                                    verdict="unsat", config=dict(l=l)))
        else:
            a, b, c, got, want = bad[0]
            viol.append(dict(harness="wigner_table", config=dict(l=l), obligation=f"3-j value l={l} ({a},{b},{c})", replay=None,
                             exception=None, failed=[f"3j({l};{a},{b},{c}) = {got} expected {want}"]))
    return [dict(name="wigner_table", obligations=ob, discharged=dis, undecided=und, solver_s=solver_s, wall_s=time.time() - t0,
                 samples=samples, violations=viol, errors=[], functions=["PyMatterSim.utils.funcs.Wignerindex"],
                 lemmas=["Wigner 3-j (l l l; m1 m2 m3) by the Racah formula in exact rationals, sqrt enclosed to 1e-40"])]


# ------------------------------------------------------------------------------------------------ harnesses

def _table(ctx, l):
    """the code's own Wigner table as exact rationals of its doubles (validated against Racah in the prelude)"""
    import importlib
    from symx import bind
    from symx.scalar import snap_float
    funcs = importlib.import_module("PyMatterSim.utils.funcs")
    was = bind.BOUND
    if was:
        bind.unbind_all()
    try:
        tab = funcs.Wignerindex(l)
    finally:
        if was:
            bind.bind_all()
    out = []
    for r in tab:
        v = float(r[3])
        out.append((int(r[0]), int(r[1]), int(r[2]), snap_float(v) if ctx.mode == "sym" else v))
    return out


def _cmul(a, b):
    return (a[0] * b[0] - a[1] * b[1], a[0] * b[1] + a[1] * b[0])


def h_logic(ctx, l, N, F, cell, ppp, topo, weighted=False, what=("qlm", "ql", "w", "sij")):
    """steps 1 and 2: angle extraction + everything downstream on opaque Y vectors"""
    ctx.covers(*FUNCS)
    boo = ctx.repo("PyMatterSim.static.boo")
    sym = ctx.mode == "sym"
    ru, rows, poss, S, W, nb, wf = _setup(ctx, N, F, cell, ppp, topo, weighted)
    bonds = [_bonds(ctx, rows, ppp, poss[f], _t(topo, f)) for f in range(F)]
    spy = Spy(ctx, boo)
    try:
        obj = boo.boo_3d(S, l=l, neighborfile=nb, weightsfile=wf, ppp=np.array(ppp), Nmax=4)
    finally:
        spy.restore()
    Y = _match_calls(ctx, l, spy, bonds)
    small, large = obj.smallqlm, obj.largeQlm
    ctx.output("smallqlm", small)
    ctx.output("largeQlm", large)
    ctx.oblige("shapes", tuple(small.shape) == (F, N, 2 * l + 1) and tuple(large.shape) == (F, N, 2 * l + 1))
    refs = [_ref_qlm(ctx, l, _t(topo, f), Y, f, None if W is None else W[f]) for f in range(F)]
    if "qlm" in what:
        for f in range(F):
            for i in range(N):
                for m in range(2 * l + 1):
                    for nm, arr, rr in (("q", small, refs[f][0]), ("Q", large, refs[f][1])):
                        re, im = O.re_im(arr[f, i, m])
                        ctx.oblige(f"{nm}_lm[{f},{i},m={m - l}]", O.And(O.eq(re, rr[i][m][0]), O.eq(im, rr[i][m][1])))
    pi_ = O.pi(ctx)
    fac = (Fraction(4, 2 * l + 1) if sym else 4.0 / (2 * l + 1)) * pi_
    for cg in (False, True):
        tag = "Q" if cg else "q"
        vecs = [[refs[f][1 if cg else 0][i] for i in range(N)] for f in range(F)]
        nz = [[_norm2(vecs[f][i]) for i in range(N)] for f in range(F)]
        if "ql" in what:
            got = obj.ql_Ql(coarse_graining=cg)
            ctx.output(f"{tag}_l", got)
            ctx.oblige(f"{tag}_l shape", tuple(got.shape) == (F, N))
            for f in range(F):
                for i in range(N):
                    ctx.oblige(f"{tag}_l[{f},{i}] = sqrt(4pi/(2l+1) sum|{tag}_lm|^2)", O.eq(got[f, i], O.sqrt(fac * nz[f][i])))
        if "w" in what:
            for f in range(F):
                for i in range(N):
                    ctx.assume(O.gt(nz[f][i], 0) if sym else nz[f][i] > 1e-12)
            w, wcap = obj.w_W_cap(coarse_graining=cg)
            ctx.output(f"w_{tag}", w)
            ctx.output(f"wcap_{tag}", wcap)
            tab = _table(ctx, l)
            for f in range(F):
                for i in range(N):
                    v = vecs[f][i]
                    tot = 0
                    for (a, b, c, t3) in tab:
                        p = _cmul(_cmul(v[a + l], v[b + l]), v[c + l])
                        tot = tot + p[0] * t3
                    ctx.oblige(f"w_{tag}[{f},{i}] = sum_(m1+m2+m3=0) (3j) q q q", O.eq(w[f, i], tot))
                    s2 = nz[f][i]
                    ctx.oblige(f"w-hat_{tag}[{f},{i}] = w / (sum|q_lm|^2)^(3/2)", O.eq(wcap[f, i], tot * O.sqrt(s2) ** -3))
        if "sij" in what:
            for f in range(F):
                for i in range(N):
                    ctx.assume(O.gt(nz[f][i], 0) if sym else nz[f][i] > 1e-12)
            c = ctx.real("c", nonneg=True)
            if not sym and c < 0:
                c = 0.0
            from symx import npf, pdf
            if sym:
                pdf.RECORD["to_csv"].clear()
            d = ctx.tmpdir()
            csvp = os.path.join(d, "sum.csv")
            res = obj.sij_ql_Ql(coarse_graining=cg, c=c, outputqlQl=csvp)
            ctx.oblige(f"s_ij({tag}) one array per frame", len(res) == F)
            if sym:
                table = pdf.RECORD["to_csv"][-1][1] if pdf.RECORD["to_csv"] else None
            else:
                import pandas as pd
                table = pd.read_csv(csvp) if os.path.exists(csvp) else None
            ctx.oblige(f"s_ij({tag}) summary written", table is not None and list(table.columns) == ["id", "sum_sij", "num_neighbors"]
                       and len(table) == F * N)
            for f in range(min(F, len(res))):
                arr = res[f]
                topo_f = _t(topo, f)
                ctx.output(f"sij_{tag}[{f}]", arr)
                ctx.oblige(f"s_ij({tag})[{f}] shape", tuple(arr.shape) == (N, 2 + 4))
                for i in range(N):
                    ctx.oblige(f"s_ij({tag})[{f},{i}] id, CN", O.And(O.eq(arr[i, 0], i + 1), O.eq(arr[i, 1], len(topo_f[i]))))
                    cnt = 0
                    for k in range(4):
                        if k < len(topo_f[i]):
                            j = topo_f[i][k]
                            up = 0
                            for m in range(2 * l + 1):
                                a, b = vecs[f][i][m], vecs[f][j][m]
                                up = up + a[0] * b[0] + a[1] * b[1]
                            want = up / (O.sqrt(nz[f][i]) * O.sqrt(nz[f][j]))
                            ctx.oblige(f"s_ij({tag})[{f},{i},{k}] = Re(q_i.q_j*)/(|q_i||q_j|)", O.eq(arr[i, 2 + k], want, 2e-6, 2e-6))
                            if sym:
                                cnt = cnt + O.If(O.gt(want, c), 1, 0)
                            else:
                                # float32 storage: a value within 1e-6 of the threshold may fall on either side
                                cnt = cnt + (1 if float(np.float32(want)) > c else 0)
                        else:
                            ctx.oblige(f"s_ij({tag})[{f},{i},{k}] padding", O.eq(arr[i, 2 + k], 0))
                    if table is not None and len(table) == F * N:
                        row = f * N + i
                        ctx.oblige(f"count of s_ij > c ({tag})[{f},{i}]",
                                   O.And(O.eq(table["sum_sij"].values[row], cnt), O.eq(table["id"].values[row], i + 1),
                                         O.eq(table["num_neighbors"].values[row], len(topo_f[i]))))


def h_sij_bound(ctx, l):
    """|s_ij| <= 1 (Cauchy-Schwarz) decided by the solver on the code's own expression: two particles, one bond each, so the
    two q-vectors are independent opaque vectors of complex dimension 2l+1"""
    ctx.covers(f"{M}.sij_ql_Ql")
    boo = ctx.repo("PyMatterSim.static.boo")
    sym = ctx.mode == "sym"
    topo = [[1], [0]]
    ru, rows, poss, S, W, nb, wf = _setup(ctx, 2, 1, "o", [0, 0, 0], topo, False)
    _bonds(ctx, rows, [0, 0, 0], poss[0], topo)
    spy = Spy(ctx, boo)
    try:
        obj = boo.boo_3d(S, l=l, neighborfile=nb, ppp=np.array([0, 0, 0]), Nmax=2)
    finally:
        spy.restore()
    vec, nz = [], []
    for i in range(2):
        v = []
        for m in range(2 * l + 1):
            re, im = O.re_im(obj.smallqlm[0, i, m])
            v += [re, im]
        vec.append(v)
        nz.append(sum(x * x for x in v))
        ctx.assume(O.gt(nz[i], 0) if sym else nz[i] > 1e-12)
    res = obj.sij_ql_Ql(c=0.5)
    ctx.output("sij", res[0])
    cs = C.cauchy_schwarz(ctx, vec[0], vec[1], "q0,q1")
    dot = sum(x * y for x, y in zip(vec[0], vec[1]))
    ctx.oblige("s_01 = s_10", O.eq(res[0][0, 2], res[0][1, 2], 2e-6, 2e-6))
    if sym:
        U, A, B = ctx.define("U", dot), ctx.define("A", O.sqrt(nz[0])), ctx.define("B", O.sqrt(nz[1]))
        ctx.oblige("s_01 = U/(A B)", O.eq(res[0][0, 2], U / (A * B), expand=True))
        prem = [O.gt(A, 0), O.gt(B, 0), O.le(U * U, A * A * B * B)]
        ctx.oblige("U^2 = (a.b)^2", O.eq(U * U, dot * dot, expand=True))
        ctx.oblige("A^2 B^2 = |a|^2 |b|^2", O.eq(A * A * B * B, nz[0] * nz[1], expand=True))
        f1, f2 = O.eq(U * U, dot * dot), O.eq(A * A * B * B, nz[0] * nz[1])
        ctx.oblige("(a.b)^2 <= |a|^2|b|^2 in the defined symbols", prem[2], using=[x for x in (cs, f1, f2) if x is not None])
        ctx.oblige("|s_01| <= 1", O.And(O.le(U / (A * B), 1), O.ge(U / (A * B), -1)), using=prem)
    else:
        ctx.oblige("|s_01| <= 1", O.And(O.le(res[0][0, 2], 1, 1e-6), O.ge(res[0][0, 2], -1, 1e-6)))


def h_equal_weights(ctx, l, N, cell, ppp, topo):
    """equal weights reproduce the unweighted result (for every common positive weight)"""
    ctx.covers(*FUNCS[:2])
    boo = ctx.repo("PyMatterSim.static.boo")
    ru, rows, poss, S, W, nb, wf = _setup(ctx, N, 1, cell, ppp, topo, True, equal_w=True)
    _bonds(ctx, rows, ppp, poss[0], topo)
    spy = Spy(ctx, boo)
    try:
        a = boo.boo_3d(S, l=l, neighborfile=nb, weightsfile=wf, ppp=np.array(ppp), Nmax=4)
        b = boo.boo_3d(S, l=l, neighborfile=nb, weightsfile=None, ppp=np.array(ppp), Nmax=4)
    finally:
        spy.restore()
    ctx.output("weighted", a.smallqlm)
    for nm, x, y in (("q", a.smallqlm, b.smallqlm), ("Q", a.largeQlm, b.largeQlm)):
        for i in range(N):
            for m in range(2 * l + 1):
                ctx.oblige(f"equal weights == unweighted {nm}[{i},m={m - l}]", O.eq(x[0, i, m], y[0, i, m]))


def h_bounds(ctx, l, nb):
    """0 <= q_l <= 1 from the decided formula: q_l^2 = 4pi/(2l+1) * sum_jk w_j w_k G_jk / (sum w)^2 with Gram entries G_jk of
    the bond vectors, G_jj = (2l+1)/4pi (Unsold, the subject of C08) and |G_jk| <= (2l+1)/4pi, which is *decided* here by
    Cauchy-Schwarz through Lagrange's identity; weights > 0"""
    ctx.covers(f"{M}.ql_Ql", f"{M}.qlm_Qlm")
    boo = ctx.repo("PyMatterSim.static.boo")
    sym = ctx.mode == "sym"
    N = nb + 1
    topo = [list(range(1, N))] + [[0]] * nb
    ru, rows, poss, S, W, nbf, wf = _setup(ctx, N, 1, "o", [0, 0, 0], topo, True)
    bonds = [_bonds(ctx, rows, [0, 0, 0], poss[0], topo)]
    spy = Spy(ctx, boo)
    try:
        obj = boo.boo_3d(S, l=l, neighborfile=nbf, weightsfile=wf, ppp=np.array([0, 0, 0]), Nmax=nb + 1)
    finally:
        spy.restore()
    Y = _match_calls(ctx, l, spy, bonds)
    ql = obj.ql_Ql()
    ctx.output("ql", ql)
    ctx.oblige("q_l >= 0", O.ge(ql[0, 0], 0))
    if not sym:
        ctx.oblige("q_l <= 1", O.le(ql[0, 0], 1, 1e-9))
        return
    pi_ = O.pi(ctx)
    cst = Fraction(2 * l + 1, 4) / pi_
    ws = W[0][0]
    tot = sum(ws)
    vecs = []
    for j in range(nb):
        v = []
        for m in range(2 * l + 1):
            v += [Y[(0, 0, j)][m][0], Y[(0, 0, j)][m][1]]
        vecs.append(v)
    NA = []
    for j in range(nb):
        na = sum(x * x for x in vecs[j])
        sj = ctx.define(f"NA{j}", na)
        ctx.assume(O.eq(sj, cst))           # Unsold's identity for the opaque vector of bond j (decided for the table in C08)
        NA.append((sj, na))
    ctx.lemma("Unsold: sum_m |Y_lm(u)|^2 = (2l+1)/4pi for every opaque bond vector (decided for the real table in C08)")
    G, prem = {}, []
    for j in range(nb):
        G[(j, j)] = cst
        for k in range(j + 1, nb):
            dot = sum(x * y for x, y in zip(vecs[j], vecs[k]))
            cs = C.cauchy_schwarz(ctx, vecs[j], vecs[k], f"Y{j},Y{k}")
            gs = ctx.define(f"G{j}{k}", dot)
            G[(j, k)] = G[(k, j)] = gs
            ctx.oblige(f"G{j}{k}^2 = (Y{j}.Y{k})^2", O.eq(gs * gs, dot * dot, expand=True))
            ctx.oblige(f"NA{j} NA{k} = |Y{j}|^2 |Y{k}|^2", O.eq(NA[j][0] * NA[k][0], NA[j][1] * NA[k][1], expand=True))
            f1, f2 = O.eq(gs * gs, dot * dot), O.eq(NA[j][0] * NA[k][0], NA[j][1] * NA[k][1])
            stage = O.le(gs * gs, NA[j][0] * NA[k][0])
            ctx.oblige(f"G{j}{k}^2 <= |Y{j}|^2 |Y{k}|^2", stage, using=[x for x in (cs, f1, f2) if x is not None])
            bound = O.And(O.le(gs, cst), O.ge(gs, -cst))
            ctx.oblige(f"|G{j}{k}| <= (2l+1)/4pi", bound,
                       using=[stage, O.eq(NA[j][0], cst), O.eq(NA[k][0], cst), O.And(O.gt(pi_, 3), O.lt(pi_, 4))])
            ctx.assume(bound)
            prem.append(bound)
    quad = 0
    for j in range(nb):
        for k in range(nb):
            quad = quad + ws[j] * ws[k] * G[(j, k)]
    q2 = Fraction(4, 2 * l + 1) * pi_ * quad / (tot * tot)
    # the code's q_l^2 in terms of the Gram entries: expand the definitions of G and of NA (NA_j = cst by Unsold)
    lhs = ql[0, 0] * ql[0, 0]
    quad_raw = 0
    for j in range(nb):
        for k in range(nb):
            quad_raw = quad_raw + ws[j] * ws[k] * sum(x * y for x, y in zip(vecs[j], vecs[k]))
    ctx.oblige("q_l^2 = 4pi/(2l+1) w.Gram.w / (sum w)^2", O.eq(lhs, Fraction(4, 2 * l + 1) * pi_ * quad_raw / (tot * tot)))
    for w in ws:
        prem.append(O.gt(w, 0))
    prem.append(O.And(O.gt(pi_, 3), O.lt(pi_, 4)))
    ctx.oblige("4pi/(2l+1) w.G.w / (sum w)^2 <= 1 given G_jj = (2l+1)/4pi, |G_jk| <= (2l+1)/4pi, w > 0", O.le(q2, 1), using=prem)


def h_real_table(ctx, l, nb):
    """step 4: the real table end to end; centre particle with nb bonds given by free unit directions and lengths"""
    ctx.covers(f"{M}.qlm_Qlm", f"{M}.ql_Ql", "PyMatterSim.utils.spherical_harmonics.sph_harm_l")
    boo = ctx.repo("PyMatterSim.static.boo")
    sym = ctx.mode == "sym"
    N = nb + 1
    topo = [list(range(1, N))] + [[0]] * nb
    ru = ctx.repo("PyMatterSim.reader.reader_utils")
    rows = C.make_cell(ctx, 3, "o")
    o = [ctx.real(f"o{a}") for a in range(3)]
    pts = [list(o)]
    dirs = []
    for k in range(nb):
        th = ctx.angle(f"th{k}", polar=True)
        ph = ctx.angle(f"ph{k}")
        r = ctx.real(f"r{k}", positive=True)
        if not sym and not r > 0:
            r = 1.0
        ct, st = O.cos_sin(th)
        cp, sp = O.cos_sin(ph)
        ctx.assume(O.gt(st, 0) if sym else st > 1e-9)
        dirs.append((ct, st, cp, sp))
        pts.append([o[0] + r * st * cp, o[1] + r * st * sp, o[2] + r * ct])
    snap = C.snapshot(ctx, ru, 0, [1] * N, C.farr(ctx, pts), rows)
    S = ru.Snapshots(nsnapshots=1, snapshots=[snap])
    nbf, _ = _files(ctx, 1, topo)
    obj = boo.boo_3d(S, l=l, neighborfile=nbf, ppp=np.array([0, 0, 0]), Nmax=nb + 1)
    q = obj.smallqlm
    ctx.output("qlm", q)
    Ys = [_ref_Y(ctx, l, d) for d in dirs]
    for m in range(2 * l + 1):
        re = sum(Ys[k][m][0] for k in range(nb)) / nb
        im = sum(Ys[k][m][1] for k in range(nb)) / nb
        gre, gim = O.re_im(q[0, 0, m])
        ctx.oblige(f"q_{l}m[0,m={m - l}] = mean_j Y_lm(bond j) with the real table", O.And(O.eq(gre, re), O.eq(gim, im)))
    if nb == 1:
        ql = obj.ql_Ql()
        ctx.output("ql", ql)
        ctx.oblige("single bond: q_l = 1 (Unsold)", O.eq(ql[0, 0], 1))


CRYSTALS = {}


def _crystal(ctx, name):
    """neighbour shell of the named perfect environment in units of the lattice parameter (exact algebraic coordinates)"""
    sym = ctx.mode == "sym"

    def rt(n):
        if sym:
            from symx import scalar as S_
            return S_.sqrt(n)
        return math.sqrt(n)
    half = Fraction(1, 2) if sym else 0.5
    if name == "sc":
        return [(1, 0, 0), (-1, 0, 0), (0, 1, 0), (0, -1, 0), (0, 0, 1), (0, 0, -1)]
    if name == "fcc":
        out = []
        for a in (1, -1):
            for b in (1, -1):
                out += [(a, b, 0), (a, 0, b), (0, a, b)]
        return out
    if name == "bcc":
        return [(a, b, c) for a in (1, -1) for b in (1, -1) for c in (1, -1)]
    if name == "hcp":
        # ideal hcp, nearest-neighbour distance 1: six in plane, three above, three below
        s3 = rt(3)
        h = rt(6) / 3
        inpl = [(1, 0, 0), (-1, 0, 0), (half, s3 / 2, 0), (-half, s3 / 2, 0), (half, -s3 / 2, 0), (-half, -s3 / 2, 0)]
        up = [(0, s3 / 3, h), (half, -s3 / 6, h), (-half, -s3 / 6, h)]
        dn = [(x, y, -z) for x, y, z in up]
        return inpl + up + dn
    if name == "ico":
        g = (1 + rt(5)) / 2
        out = []
        for a in (1, -1):
            for b in (1, -1):
                out += [(0, a, b * g), (a, b * g, 0), (a * g, 0, b)]
        return out
    raise KeyError(name)


# tabulated reference values (Steinhardt et al. 1983; Mickel et al. 2013): q4, q6, w6-hat
TABULATED = {
    "fcc": (0.19094, 0.57452, -0.01316),
    "hcp": (0.09722, 0.48476, -0.01244),
    "bcc": (0.50918, 0.62854, 0.01316),
    "sc": (0.76376, 0.35355, 0.01316),
    "ico": (0.0, 0.66332, -0.16975),
}


def h_crystal(ctx, name, l):
    """perfect environments (symbolic lattice parameter and origin) give the tabulated q_l / w-hat_l with the real table"""
    ctx.covers(f"{M}.qlm_Qlm", f"{M}.ql_Ql", f"{M}.w_W_cap", "PyMatterSim.utils.spherical_harmonics.sph_harm_l")
    boo = ctx.repo("PyMatterSim.static.boo")
    ru = ctx.repo("PyMatterSim.reader.reader_utils")
    sym = ctx.mode == "sym"
    a = ctx.real("a", positive=True)
    if not sym and not a > 0:
        a = 1.0
    o = [ctx.real(f"o{k}") for k in range(3)]
    # a generic rigid tilt about the x axis keeps bonds off the z axis (azimuth defined) without changing the invariants
    shell = _crystal(ctx, name)
    tc, ts = (Fraction(4, 5), Fraction(3, 5)) if sym else (0.8, 0.6)
    shell = [(x, tc * y - ts * z, ts * y + tc * z) for x, y, z in shell]
    uc, us = (Fraction(5, 13), Fraction(12, 13)) if sym else (5 / 13, 12 / 13)
    shell = [(uc * x + us * z, y, -us * x + uc * z) for x, y, z in shell]
    pts = [list(o)] + [[o[0] + a * x, o[1] + a * y, o[2] + a * z] for x, y, z in shell]
    N = len(pts)
    rows = [[C.const(ctx, 1000) if r == c_ else 0 for c_ in range(3)] for r in range(3)]
    snap = C.snapshot(ctx, ru, 0, [1] * N, C.farr(ctx, pts), rows)
    S = ru.Snapshots(nsnapshots=1, snapshots=[snap])
    topo = [list(range(1, N))] + [[0]] * (N - 1)
    nbf, _ = _files(ctx, 1, topo)
    obj = boo.boo_3d(S, l=l, neighborfile=nbf, ppp=np.array([0, 0, 0]), Nmax=N)
    ql = obj.ql_Ql()
    ctx.output("ql", ql[0, 0])
    want = TABULATED[name][0 if l == 4 else 1]
    tol = 1e-4
    lo, hi = max(want - tol, 0.0), want + tol
    q2 = ql[0, 0] * ql[0, 0]
    if sym:
        lo, hi = Fraction(lo).limit_denominator(10 ** 7), Fraction(hi).limit_denominator(10 ** 7)
    ctx.oblige(f"{name}: q_{l} = {want} +- 1e-4", O.And(O.ge(q2, lo * lo, 0), O.le(q2, hi * hi, 0)))
    if l == 6:
        w, wcap = obj.w_W_cap()
        ctx.output("wcap", wcap[0, 0])
        ww = TABULATED[name][2]
        lo, hi = ww - tol, ww + tol
        if sym:
            lo, hi = Fraction(lo).limit_denominator(10 ** 7), Fraction(hi).limit_denominator(10 ** 7)
        ctx.oblige(f"{name}: w-hat_6 = {ww} +- 1e-4", O.And(O.ge(wcap[0, 0], lo, 0), O.le(wcap[0, 0], hi, 0)))


def h_corr(ctx, l, N, F, topo, what):
    """spatial_corr / time_corr are the documented functions (conditional g(r), time correlation) of the q_lm vectors"""
    ctx.covers(f"{M}.spatial_corr", f"{M}.time_corr")
    boo = ctx.repo("PyMatterSim.static.boo")
    gr = ctx.repo("PyMatterSim.static.gr")
    tc = ctx.repo("PyMatterSim.dynamic.time_corr")
    sym = ctx.mode == "sym"
    ru, rows, poss, S, W, nb, wf = _setup(ctx, N, F, "sym-o", [0, 0, 0], topo, False)
    for f in range(F):
        _bonds(ctx, rows, [0, 0, 0], poss[f], topo)
    spy = Spy(ctx, boo)
    try:
        obj = boo.boo_3d(S, l=l, neighborfile=nb, ppp=np.array([0, 0, 0]), Nmax=4)
    finally:
        spy.restore()
    for cg in (False, True):
        vec = obj.largeQlm if cg else obj.smallqlm
        tag = "Q" if cg else "q"
        if what == "spatial":
            delta = ctx.real("delta", positive=True)
            L = [rows[a][a] for a in range(3)]
            Lmin = O.If(O.le(L[1], L[0]), L[1], L[0])
            Lmin = O.If(O.le(L[2], Lmin), L[2], Lmin)
            ctx.assume(O.And(O.ge(Lmin, 2 * delta), O.lt(Lmin, 4 * delta)))
            res = obj.spatial_corr(coarse_graining=cg, rdelta=delta)
            acc = None
            for n, snap in enumerate(S.snapshots):
                one = gr.conditional_gr(snap, condition=vec[n], conditiontype="vector", ppp=np.array([0, 0, 0]), rdelta=delta)
                acc = one if acc is None else acc + one
            acc = acc / F
            ctx.oblige(f"spatial_corr({tag}) columns", list(res.columns) == list(acc.columns) and len(res) == len(acc))
            for c in res.columns:
                ctx.output(f"{tag}.{c}", np.asarray(res[c].values))
                for k in range(len(res)):
                    ctx.oblige(f"spatial_corr({tag}) {c}[{k}] = frame mean of conditional g(r) of the {tag}_lm vectors",
                               O.eq(res[c].values[k], acc[c].values[k]))
        else:
            dt = ctx.real("dt", positive=True)
            if not sym and not dt > 0:
                dt = 0.002
            n0 = 0
            for i in range(N):
                for m in range(2 * l + 1):
                    re, im = O.re_im(vec[0, i, m])
                    n0 = n0 + re * re + im * im
            ctx.assume(O.gt(n0, 0) if sym else n0 > 1e-9)
            res = obj.time_corr(coarse_graining=cg, dt=dt)
            base = tc.time_correlation(S, vec, dt=dt)
            ctx.oblige(f"time_corr({tag}) columns", list(res.columns) == list(base.columns) and len(res) == len(base))
            c0 = base["time_corr"].values[0]
            for c in res.columns:
                ctx.output(f"{tag}.{c}", np.asarray(res[c].values))
                for k in range(len(res)):
                    want = base[c].values[k] if c != "time_corr" else base[c].values[k] / c0
                    ctx.oblige(f"time_corr({tag}) {c}[{k}]", O.eq(res[c].values[k], want))
            ctx.oblige(f"time_corr({tag}) starts at 1", O.eq(res["time_corr"].values[0], 1))


# ------------------------------------------------------------------------------------------------ configurations

TOPO3 = [[1, 2], [0], [0, 1]]
TOPO4 = [[1, 2, 3], [0, 2], [3], [0, 1]]


def cfg_logic(tier, seed):
    out = []
    ls = (1, 2, 4, 6, 12) if tier == "quick" else tuple(range(1, 13))
    for l in ls:
        out.append(dict(l=l, N=3, F=1, cell="o", ppp=[0, 0, 0], topo=TOPO3, weighted=False, what=["qlm", "ql"]))
        if tier == "thorough" or l in (1, 2, 6):
            out.append(dict(l=l, N=3, F=1, cell="o", ppp=[0, 0, 0], topo=TOPO3, weighted=True, what=["qlm", "ql"]))
    for l in ((1, 2, 6) if tier == "quick" else (1, 2, 3, 4, 6, 8, 10, 12)):
        out.append(dict(l=l, N=3, F=1, cell="o", ppp=[0, 0, 0], topo=TOPO3, weighted=False, what=["w"]))
        out.append(dict(l=l, N=3, F=1, cell="o", ppp=[0, 0, 0], topo=TOPO3, weighted=False, what=["sij"]))
    # two frames whose coordination numbers differ (per-frame work arrays must not carry over)
    out.append(dict(l=2, N=3, F=2, cell="o", ppp=[0, 0, 0], topo=[[[1, 2], [0, 2], [0, 1]], [[1], [0], [0]]], weighted=False, what=["sij"]))
    # periodic cells (orthogonal / triclinic of both tilt signs), second frame
    out.append(dict(l=2, N=3, F=2, cell="o", ppp=[1, 1, 1], topo=[[1], [2], [0]], weighted=True, what=["qlm"]))
    out.append(dict(l=2, N=3, F=1, cell="t-", ppp=[1, 1, 1], topo=[[1], [2], [0]], weighted=False, what=["qlm"]))
    out.append(dict(l=4, N=3, F=1, cell="t+", ppp=[1, 0, 1], topo=[[1], [2], [0]], weighted=True, what=["qlm"]))
    if tier == "thorough":
        for l in (2, 6):
            out.append(dict(l=l, N=4, F=2, cell="o", ppp=[0, 0, 0], topo=TOPO4, weighted=True, what=["qlm", "ql"]))
            out.append(dict(l=l, N=4, F=1, cell="o", ppp=[0, 0, 0], topo=TOPO4, weighted=True, what=["w"]))
            out.append(dict(l=l, N=4, F=2, cell="o", ppp=[0, 0, 0], topo=TOPO4, weighted=True, what=["sij"]))
        out.append(dict(l=6, N=3, F=2, cell="t+", ppp=[1, 1, 1], topo=[[1], [2], [0]], weighted=True, what=["qlm"]))
    return out


def cfg_eqw(tier, seed):
    return [dict(l=l, N=3, cell="o", ppp=[0, 0, 0], topo=TOPO3) for l in ((2, 6) if tier == "quick" else (1, 2, 4, 6, 8, 12))]


def cfg_bounds(tier, seed):
    return [dict(l=l, nb=nb) for l in ((2, 6) if tier == "quick" else (2, 4, 6, 12)) for nb in ((2,) if tier == "quick" else (2, 3))]


def cfg_real(tier, seed):
    out = [dict(l=1, nb=1), dict(l=2, nb=1)]
    if tier == "thorough":
        out += [dict(l=2, nb=2), dict(l=3, nb=1), dict(l=4, nb=1)]
    return out


def cfg_crystal(tier, seed):
    names = ("sc", "fcc", "bcc") if tier == "quick" else ("sc", "fcc", "bcc", "hcp", "ico")
    return [dict(name=n, l=l) for n in names for l in (4, 6)]


def cfg_corr(tier, seed):
    out = [dict(l=1, N=2, F=2, topo=[[1], [0]], what="spatial"), dict(l=2, N=2, F=3, topo=[[1], [0]], what="time")]
    if tier == "thorough":
        out.append(dict(l=6, N=3, F=3, topo=TOPO3, what="time"))
    return out


HARNESSES = [
    H("averaging_logic", h_logic, cfg_logic, timeout_ms=30000, abstract=True, budget_s=400),
    H("equal_weights", h_equal_weights, cfg_eqw, timeout_ms=30000, abstract=True),
    H("bounds", h_bounds, cfg_bounds, timeout_ms=30000, abstract=True),
    H("sij_bound", h_sij_bound, lambda tier, seed: [dict(l=l) for l in ((1, 2, 4, 6) if tier == "quick" else range(1, 13))],
      timeout_ms=60000, abstract=True, budget_s=400),
    H("real_table", h_real_table, cfg_real, timeout_ms=60000, budget_s=400),
    H("crystals", h_crystal, cfg_crystal, timeout_ms=120000, budget_s=500, validate_timeout_ms=20000),
    H("correlations", h_corr, cfg_corr, timeout_ms=30000, abstract=True, budget_s=400),
]
