"""C18 analyses are pure: inputs never modified, repeated / interleaved calls agree, files hold what is returned (DESIGN C18).

Two families of harnesses:
  * `frame:<module>.<harness>` - the harnesses of the other properties are re-run in *frame mode*: every array of every
    snapshot and every array argument they hand to the code under test is put under the frame condition "unchanged by the
    calls that follow" (element terms compared by the solver on every path; every write that reaches the memory of such an
    array is logged by the write monitor of the numpy facade, and the path's model is replayed on the real code with a byte
    comparison).  The host harness' own obligations are switched off in this mode.
  * dedicated sequences A ; B ; A on shared snapshot objects / analysis objects: results of A identical, object state
    (ParticlePhi, smallqlm, ...) unchanged, the object handed to np.save / to_csv is the one returned.
"""
import importlib
import os
from fractions import Fraction

import numpy as np

from symx import ops as O
from symx.run import H
from checks import common as C

BOUNDS = {
    "quick": "frame mode: the first two quick configurations of every path-exploring harness of C02-C06, C09-C17 (N<=3 particles, "
             "F<=3 frames, all values symbolic); sequences: g(r)/S(q)/conditional g(r) interleaved on shared snapshots (N=3, F=2), "
             "gyration tensor (N=3, d=2,3), boo_2d and boo_3d object state over all methods, Dynamics/LogDynamics, coarse "
             "graining, vector measures, neighbour writers (files byte-identical), VolumeMatrix with the tessellation stubbed "
             "(symbolic run) and real (replay), N=4",
    "thorough": "frame mode over all quick configurations of the host harnesses; sequences with N=4 / F=3",
}
STUBS = ["freud.locality.Voronoi / freud.box.Box -> arbitrary positive volumes (symbolic run only; the concrete replay calls the "
         "real library)", "np.save / np.savetxt / DataFrame.to_csv -> recorders (object written compared with object returned)",
         "boo.sph_harm_l -> opaque symbols (as in C09)"]
ASSUMPTIONS = ["floats modelled as reals for the symbolic comparison; bit-level identity is decided on the concrete replays "
               "(tobytes) of each path's model and, for writes that cancel over the reals, on seeded float64 inputs",
               "text precision of CSV output outside the claim (the recorded object is compared)",
               "exceptions raised by the code under test in frame mode are the host property's business"]

FRAME_HOSTS = [("c02", None), ("c03", None), ("c04", None), ("c05", ["lists"]), ("c06", None), ("c09", ["averaging_logic", "correlations"]),
               ("c10", ["psi_definition", "derived"]), ("c11", None), ("c13", None), ("c14", None), ("c15", None), ("c16", None),
               ("c17", None)]


def _frame_harnesses():
    out = []
    for modname, only in FRAME_HOSTS:
        try:
            mod = importlib.import_module("checks." + modname)
        except Exception:       # a host module that cannot be imported contributes nothing (never an alarm)
            continue
        for h in mod.HARNESSES:
            if only is not None and h.name not in only:
                continue

            def cfgs(tier, seed, h=h):
                base = h.configs("quick", seed)
                return base[:2] if tier == "quick" else base
            opts = dict(h.opts)
            opts.update(frame=True, abstract=True)
            opts.setdefault("budget_s", 200)
            out.append(H(f"frame:{modname}.{h.name}", h.fn, cfgs, **opts))
    return out


# ------------------------------------------------------------------------------------------------ helpers

def protect_snapshots(ctx, S, tag="snap"):
    for n, s in enumerate(S.snapshots):
        for f in ("positions", "particle_type", "boxlength", "boxbounds", "hmatrix", "realbounds"):
            a = getattr(s, f, None)
            if isinstance(a, np.ndarray):
                ctx.protect(f"{tag}[{n}].{f}", a)


def same(ctx, name, a, b):
    """obligations: two results of the same call are identical (structurally in the symbolic run, exactly in the replay)"""
    import pandas as pd
    if isinstance(a, pd.DataFrame) or isinstance(b, pd.DataFrame):
        ok = isinstance(a, pd.DataFrame) and isinstance(b, pd.DataFrame) and list(a.columns) == list(b.columns) and len(a) == len(b)
        ctx.oblige(f"frame: {name}: same table layout", ok)
        if ok:
            for c in a.columns:
                same(ctx, f"{name}.{c}", np.asarray(a[c].values), np.asarray(b[c].values))
        return
    if isinstance(a, (list, tuple)) and isinstance(b, (list, tuple)):
        ctx.oblige(f"frame: {name}: same length", len(a) == len(b))
        for k, (x, y) in enumerate(zip(a, b)):
            same(ctx, f"{name}[{k}]", x, y)
        return
    if a is None or b is None:
        ctx.oblige(f"frame: {name}: both None", a is None and b is None)
        return
    aa, bb = np.asarray(a), np.asarray(b)
    if aa.shape != bb.shape:
        ctx.oblige(f"frame: {name}: same shape", False if ctx.mode == "sym" else O.Verdict(False, f"{aa.shape} vs {bb.shape}"))
        return
    if ctx.mode == "sym":
        cond = True
        for idx in np.ndindex(aa.shape):
            x, y = aa[idx], bb[idx]
            if x is y:
                continue
            cond = O.And(cond, O.eq(x, y))
        ctx.oblige(f"frame: {name}: repeated call returns identical values", cond)
    else:
        try:
            eq = bool(np.array_equal(aa, bb, equal_nan=True)) if aa.dtype.kind in "fc" else bool(np.array_equal(aa, bb))
        except Exception:
            eq = False
        why = ""
        if not eq:
            try:
                bad = np.argwhere(~((aa == bb) | ((aa != aa) & (bb != bb))))
                i = tuple(bad[0])
                why = f"{name}{list(i)}: {aa[i]!r} then {bb[i]!r}"
            except Exception:
                why = "values differ"
        ctx.oblige(f"frame: {name}: repeated call returns identical values", O.Verdict(eq, why))


def written_equals(ctx, name, kind, path, returned, decimals=6):
    """the object handed to the writer is (value-wise) the object returned; in the replay the real file is read back"""
    import pandas as pd
    from symx import npf, pdf
    if ctx.mode == "sym":
        if kind == "csv":
            rec = [df for p, df in pdf.RECORD["to_csv"] if p == path]
        else:
            rec = [arr for p, arr in npf.RECORD["save" if kind == "npy" else "savetxt"] if isinstance(p, str) and (p == path or p == path[:-4])]
        ctx.oblige(f"frame: {name}: requested output file is written", len(rec) >= 1)
        if rec:
            same(ctx, f"{name}: file content", rec[-1], returned)
        return
    exists = os.path.exists(path) or os.path.exists(path + ".npy")
    ctx.oblige(f"frame: {name}: requested output file is written", O.Verdict(exists, f"{path} missing"))
    if not exists:
        return
    tol = 0.51 * 10 ** (-decimals)
    if kind == "csv":
        got = pd.read_csv(path)
        ok = list(got.columns) == list(returned.columns) and len(got) == len(returned)
        if ok:
            for c in got.columns:
                a, b = np.asarray(got[c].values, dtype=float), np.asarray(returned[c].values, dtype=float)
                ok = ok and bool(np.all(np.abs(a - b) <= tol + 1e-12 * np.abs(b)))
        ctx.oblige(f"frame: {name}: file content: repeated call returns identical values", O.Verdict(ok, "csv differs from returned"))
    else:
        got = np.load(path if os.path.exists(path) else path + ".npy")
        ok = got.shape == np.asarray(returned).shape and bool(np.array_equal(got, np.asarray(returned), equal_nan=True))
        ctx.oblige(f"frame: {name}: file content: repeated call returns identical values", O.Verdict(ok, "npy differs from returned"))


def _clear_records(ctx):
    if ctx.mode == "sym":
        from symx import npf, pdf
        npf.RECORD["save"].clear()
        npf.RECORD["savetxt"].clear()
        pdf.RECORD["to_csv"].clear()


def _positive(ctx, name, default=1.0):
    v = ctx.real(name, positive=True)
    if ctx.mode == "conc" and not v > 0:
        v = default
    return v


def _snapshots(ctx, ru, d, N, F, types, cell, steps=None, lo=None, tag="p"):
    rows = C.make_cell(ctx, d, cell)
    poss, snaps = [], []
    for f in range(F):
        prow = [[ctx.real(f"{tag}{f}_{i}_{a}") for a in range(d)] for i in range(N)]
        poss.append(prow)
        snaps.append(C.snapshot(ctx, ru, (steps[f] if steps else 10 * (f + 1)), types, C.farr(ctx, prow), rows, lo=lo))
    return rows, poss, ru.Snapshots(nsnapshots=F, snapshots=snaps)


def _nbfile(ctx, F, topo, header="id cn neighborlist"):
    p = os.path.join(ctx.tmpdir(), "nb.dat")
    with open(p, "w") as fh:
        for f in range(F):
            fh.write(header + "\n")
            for i, lst in enumerate(topo):
                fh.write(" ".join([str(i + 1), str(len(lst))] + [str(j + 1) for j in lst]) + "\n")
    return p


# ------------------------------------------------------------------------------------------------ sequences

def h_static(ctx, d, N, F, types):
    """g(r) ; S(q) ; conditional g(r)/S(q) ; g(r) ; S(q) on the same snapshot objects"""
    ctx.covers("PyMatterSim.static.gr.gr", "PyMatterSim.static.sq.sq", "PyMatterSim.static.gr.conditional_gr",
               "PyMatterSim.static.sq.conditional_sq")
    g = ctx.repo("PyMatterSim.static.gr")
    sq = ctx.repo("PyMatterSim.static.sq")
    ru = ctx.repo("PyMatterSim.reader.reader_utils")
    rows, poss, S = _snapshots(ctx, ru, d, N, F, types, "o")
    protect_snapshots(ctx, S)
    delta = _positive(ctx, "delta")
    Lmin = min(rows[a][a] for a in range(d))
    ctx.assume(O.And(O.ge(Lmin, 2 * delta), O.lt(Lmin, 6 * delta)))
    ppp = np.array([1] * d)
    qv = np.array([[1, 0, 0][:d], [0, 1, 0][:d], [1, 1, 0][:d]])
    ctx.protect("ppp", ppp)
    ctx.protect("qvector", qv)
    cond = ctx.array("A", (N,))
    ctx.protect("condition", cond)
    _clear_records(ctx)
    tmp = ctx.tmpdir()
    f1, f2 = os.path.join(tmp, "gr.csv"), os.path.join(tmp, "sq.csv")
    gobj = g.gr(S, ppp=ppp, rdelta=delta, outputfile=f1)
    g1 = gobj.getresults()
    written_equals(ctx, "g(r)", "csv", f1, g1)
    sobj = sq.sq(S, qvector=qv, outputfile=f2)
    s1 = sobj.getresults()
    written_equals(ctx, "S(q)", "csv", f2, s1)
    # integer-valued wave vectors held in a float64 array (as np.loadtxt returns them): the caller's array, used twice
    qf = qv.astype(np.float64)
    ctx.protect("qvector (float64)", qf)
    c1 = g.conditional_gr(S.snapshots[0], condition=cond, conditiontype=None, ppp=ppp, rdelta=delta)
    k1 = sq.conditional_sq(S.snapshots[F - 1], qvector=qf, condition=cond)
    g2 = g.gr(S, ppp=ppp, rdelta=delta).getresults()
    s2 = sq.sq(S, qvector=qv).getresults()
    c2 = g.conditional_gr(S.snapshots[0], condition=cond, conditiontype=None, ppp=ppp, rdelta=delta)
    k2 = sq.conditional_sq(S.snapshots[F - 1], qvector=qf, condition=cond)
    ctx.output("gr", np.asarray(g1["gr"].values))
    same(ctx, "g(r) after S(q) and conditional g(r)", g1, g2)
    same(ctx, "S(q) after g(r)", s1, s2)
    # the same analysis objects asked a second time (their own state must not have been altered by the first answer)
    same(ctx, "g(r): second getresults() of one object", g1, gobj.getresults())
    same(ctx, "S(q): second getresults() of one object", s1, sobj.getresults())
    same(ctx, "conditional g(r)", c1, c2)
    same(ctx, "conditional S(q)", k1, k2)
    ctx.check_unchanged("frame")


def h_gyration(ctx, N, d):
    ctx.covers("PyMatterSim.static.shape.gyration_tensor")
    sh = ctx.repo("PyMatterSim.static.shape")
    pts = ctx.array("x", (N, d))
    ctx.protect("pos_group", pts)
    r1 = sh.gyration_tensor(pts)
    r2 = sh.gyration_tensor(pts)
    ctx.output("rg", r1[0])
    same(ctx, "gyration_tensor", list(r1), list(r2))
    ctx.check_unchanged("frame")


def h_boo2d(ctx, l, N, F, topo, weighted):
    """all methods of one boo_2d object, then the first again: object state (ParticlePhi) and inputs unchanged"""
    from checks import c10
    ctx.covers(*c10.FUNCS)
    boo = ctx.repo("PyMatterSim.static.boo")
    ru, rows, poss, S, W, nb, wf = c10._setup(ctx, N, F, "sym-o", [0, 0], topo, weighted, wsign=False)
    for f in range(F):
        for i, lst in enumerate(topo):
            for j in lst:
                d2 = sum((poss[f][j][a] - poss[f][i][a]) ** 2 for a in range(2))
                ctx.assume(O.gt(d2, 0) if ctx.mode == "sym" else d2 > 1e-12)
    protect_snapshots(ctx, S)
    ppp = np.array([0, 0])
    ctx.protect("ppp", ppp)
    _clear_records(ctx)
    tmp = ctx.tmpdir()
    fphi = os.path.join(tmp, "phi.npy")
    obj = boo.boo_2d(S, l=l, neighborfile=nb, weightsfile=wf, ppp=ppp, Nmax=5)
    phi = obj.ParticlePhi
    ctx.protect("boo_2d.ParticlePhi", phi)
    ctx.output("psi", phi)
    again = obj.lthorder(output_phi=fphi) if hasattr(obj, "lthorder") else phi
    same(ctx, "lthorder recomputed", phi, again)
    written_equals(ctx, "lthorder", "npy", fphi, again)
    dt = _positive(ctx, "dt", 0.002)
    n0 = sum(O.re_im(phi[f, i])[0] ** 2 + O.re_im(phi[f, i])[1] ** 2 for f in range(F) for i in range(N))
    ctx.assume(O.Not(O.eq(n0, 0)) if ctx.mode == "sym" else abs(n0) > 1e-9)
    t1 = obj.time_corr(dt=dt)
    period = 2 * 10 * dt        # window of two frames
    a1 = obj.time_average(time_period=period, dt=dt, average_complex=True)
    a1b = obj.time_average(time_period=period, dt=dt, average_complex=False)
    t2 = obj.time_corr(dt=dt)
    a2 = obj.time_average(time_period=period, dt=dt, average_complex=True)
    same(ctx, "time_corr after time_average", t1, t2)
    same(ctx, "time_average(complex) repeated", list(a1), list(a2))
    ctx.check_unchanged("frame")


def h_boo3d(ctx, l, N, F, topo, weighted):
    from checks import c09
    ctx.covers(*c09.FUNCS)
    boo = ctx.repo("PyMatterSim.static.boo")
    ru, rows, poss, S, W, nb, wf = c09._setup(ctx, N, F, "o", [0, 0, 0], topo, weighted)
    for f in range(F):
        c09._bonds(ctx, rows, [0, 0, 0], poss[f], topo)
    protect_snapshots(ctx, S)
    ppp = np.array([0, 0, 0])
    ctx.protect("ppp", ppp)
    _clear_records(ctx)
    tmp = ctx.tmpdir()
    spy = c09.Spy(ctx, boo)
    try:
        obj = boo.boo_3d(S, l=l, neighborfile=nb, weightsfile=wf, ppp=ppp, Nmax=4)
    finally:
        spy.restore()
    ctx.protect("boo_3d.smallqlm", obj.smallqlm)
    ctx.protect("boo_3d.largeQlm", obj.largeQlm)
    ctx.output("smallqlm", obj.smallqlm)
    sym = ctx.mode == "sym"
    for cg in (False, True):
        vec = obj.largeQlm if cg else obj.smallqlm
        for f in range(F):
            for i in range(N):
                nz = sum(O.re_im(vec[f, i, m])[0] ** 2 + O.re_im(vec[f, i, m])[1] ** 2 for m in range(2 * l + 1))
                ctx.assume(O.gt(nz, 0) if sym else nz > 1e-12)
    fq, fw, fwc = os.path.join(tmp, "ql.npy"), os.path.join(tmp, "w.npy"), os.path.join(tmp, "wcap.npy")
    q1 = obj.ql_Ql(coarse_graining=False, outputfile=fq)
    written_equals(ctx, "ql_Ql", "npy", fq, q1)
    w1 = obj.w_W_cap(coarse_graining=True, outputw=fw, outputwcap=fwc)
    written_equals(ctx, "w_W_cap (w)", "npy", fw, w1[0])
    written_equals(ctx, "w_W_cap (w-hat)", "npy", fwc, w1[1])
    s1 = obj.sij_ql_Ql(coarse_graining=False, c=0.5)
    dt = _positive(ctx, "dt", 0.002)
    if F > 1:
        t1 = obj.time_corr(dt=dt)
    q2 = obj.ql_Ql(coarse_graining=False)
    w2 = obj.w_W_cap(coarse_graining=True)
    s2 = obj.sij_ql_Ql(coarse_graining=False, c=0.5)
    same(ctx, "ql_Ql after w/sij/time_corr", q1, q2)
    same(ctx, "w_W_cap repeated", list(w1), list(w2))
    same(ctx, "sij_ql_Ql repeated", list(s1), list(s2))
    if F > 1:
        same(ctx, "time_corr repeated", t1, obj.time_corr(dt=dt))
    ctx.check_unchanged("frame")


def h_dynamics(ctx, d, N, F, types, mode):
    ctx.covers("PyMatterSim.dynamic.dynamics.Dynamics.relaxation", "PyMatterSim.dynamic.dynamics.LogDynamics.relaxation",
               "PyMatterSim.dynamic.dynamics.Dynamics.__init__")
    dyn = ctx.repo("PyMatterSim.dynamic.dynamics")
    ru = ctx.repo("PyMatterSim.reader.reader_utils")
    steps = [100 * (f + 1) for f in range(F)]
    rows, poss, S = _snapshots(ctx, ru, d, N, F, types, "o", steps=steps)
    protect_snapshots(ctx, S)
    ppp = np.array([0] * d)
    ctx.protect("ppp", ppp)
    sig = {1: _positive(ctx, "sig1"), 2: _positive(ctx, "sig2")}
    a = _positive(ctx, "a", 0.3)
    q = _positive(ctx, "q", 6.28)
    dt = _positive(ctx, "dt", 0.002)
    sym = ctx.mode == "sym"
    for k in range(1, F):
        for t0 in range(F - k):
            m2 = sum((poss[t0 + k][i][c] - poss[t0][i][c]) ** 2 for i in range(N) for c in range(d))
            ctx.assume(O.gt(m2, 0) if sym else m2 > 1e-12)
    _clear_records(ctx)
    tmp = ctx.tmpdir()
    f1 = os.path.join(tmp, "dyn.csv")
    D = dyn.Dynamics(xu_snapshots=S, dt=dt, ppp=ppp, diameters=sig, a=a, cal_type=mode)
    r1 = D.relaxation(qconst=q, outputfile=f1)
    written_equals(ctx, "Dynamics.relaxation", "csv", f1, r1)
    Lg = dyn.LogDynamics(xu_snapshots=S, dt=dt, ppp=ppp, diameters=sig, a=a, cal_type=mode)
    l1 = Lg.relaxation(qconst=q)
    r2 = D.relaxation(qconst=q)
    l2 = Lg.relaxation(qconst=q)
    ctx.output("isf", np.asarray(r1["isf"].values))
    same(ctx, "Dynamics.relaxation after LogDynamics", r1, r2)
    same(ctx, "LogDynamics.relaxation repeated", l1, l2)
    ctx.check_unchanged("frame")


def h_sq4_state(ctx, d, N, F):
    """Dynamics.sq4 asked twice on one object with different wave-number ranges: the second answer is the one a fresh object
    gives for that range (qrange is an argument of the call, not state of the object)"""
    ctx.covers("PyMatterSim.dynamic.dynamics.Dynamics.sq4")
    from checks.c04 import BOXES
    dyn = ctx.repo("PyMatterSim.dynamic.dynamics")
    ru = ctx.repo("PyMatterSim.reader.reader_utils")
    sym = ctx.mode == "sym"
    steps = [10 * (f + 1) for f in range(F)]
    L = [C.const(ctx, x) for x in BOXES[d][0]]
    rows = [[L[a] if a == b else 0 for b in range(d)] for a in range(d)]
    poss, snaps = [], []
    for f in range(F):
        prow = [[ctx.real(f"p{f}_{i}_{a}") for a in range(d)] for i in range(N)]
        poss.append(prow)
        snaps.append(C.snapshot(ctx, ru, steps[f], [1] * N, C.farr(ctx, prow), rows))
    S = ru.Snapshots(nsnapshots=F, snapshots=snaps)
    protect_snapshots(ctx, S)
    dia = {1: _positive(ctx, "sigma1")}
    a = _positive(ctx, "a", 0.3)
    dt = _positive(ctx, "dt", 0.002)
    pi_ = O.pi(ctx)
    Lmax = C.const(ctx, max(Fraction(x) for x in BOXES[d][0]))
    q1, q2 = _positive(ctx, "qrange1", 1.0), _positive(ctx, "qrange2", 2.0)
    # numofq = int(qrange * Lmax / pi): 2 for the first range, 4 for the second
    ctx.assume(O.And(O.ge(q1 * Lmax, 2 * pi_), O.lt(q1 * Lmax, 3 * pi_)))
    ctx.assume(O.And(O.ge(q2 * Lmax, 4 * pi_), O.lt(q2 * Lmax, 5 * pi_)))
    t = (steps[1] - steps[0]) * dt
    for n0 in range(F - 1):          # every origin has a slow particle (0/0 otherwise)
        conds = []
        for i in range(N):
            dist = sum((poss[n0 + 1][i][c] - poss[n0][i][c]) ** 2 for c in range(d))
            conds.append(O.lt(dist, (a * dia[1]) * (a * dia[1])))
        ctx.assume(O.Or(*conds))

    def fresh():
        return dyn.Dynamics(xu_snapshots=S, dt=dt, ppp=np.array([0] * d), diameters=dia, a=a, cal_type="slow")
    obj = fresh()
    first = obj.sq4(t=t, qrange=q1)
    second = obj.sq4(t=t, qrange=q2)
    again = obj.sq4(t=t, qrange=q1)
    ctx.output("Sq", np.asarray(second["Sq"].values))
    same(ctx, "sq4(qrange2) after sq4(qrange1) vs a fresh object", second, fresh().sq4(t=t, qrange=q2))
    same(ctx, "sq4(qrange1) asked again after sq4(qrange2)", first, again)
    ctx.check_unchanged("frame")


def h_coarse(ctx, N, F, topo):
    ctx.covers("PyMatterSim.utils.coarse_graining.time_average", "PyMatterSim.utils.coarse_graining.spatial_average")
    cg = ctx.repo("PyMatterSim.utils.coarse_graining")
    ru = ctx.repo("PyMatterSim.reader.reader_utils")
    rows, poss, S = _snapshots(ctx, ru, 2, N, F, [1] * N, "o")
    protect_snapshots(ctx, S)
    prop = ctx.array("A", (F, N))
    ctx.protect("input_property", prop)
    from symx import npf
    if ctx.mode == "sym":
        cprop = npf.sarr([[O.cplx(ctx.real(f"B{f}_{i}.re"), ctx.real(f"B{f}_{i}.im")) for i in range(N)] for f in range(F)], np.dtype(complex))
    else:
        cprop = np.array([[complex(ctx.real(f"B{f}_{i}.re"), ctx.real(f"B{f}_{i}.im")) for i in range(N)] for f in range(F)])
    ctx.protect("input_property (complex)", cprop)
    dt = _positive(ctx, "dt", 0.002)
    nb = _nbfile(ctx, F, topo)
    period = 2 * 10 * dt
    a1 = cg.time_average(S, prop, time_period=period, dt=dt)
    c1 = cg.time_average(S, cprop, time_period=period, dt=dt)
    s1 = cg.spatial_average(prop, nb, Nmax=4)
    a2 = cg.time_average(S, prop, time_period=period, dt=dt)
    c2 = cg.time_average(S, cprop, time_period=period, dt=dt)
    s2 = cg.spatial_average(prop, nb, Nmax=4)
    ctx.output("avg", a1[0])
    same(ctx, "time_average", list(a1), list(a2))
    same(ctx, "time_average (complex input)", list(c1), list(c2))
    same(ctx, "spatial_average", s1, s2)
    ctx.check_unchanged("frame")


def h_vector(ctx, N, d, topo):
    ctx.covers("PyMatterSim.static.vector.participation_ratio", "PyMatterSim.static.vector.local_vector_alignment",
               "PyMatterSim.static.vector.phase_quotient", "PyMatterSim.static.vector.divergence_curl",
               "PyMatterSim.static.vector.vibrability")
    v = ctx.repo("PyMatterSim.static.vector")
    ru = ctx.repo("PyMatterSim.reader.reader_utils")
    rows, poss, S = _snapshots(ctx, ru, d, N, 1, [1] * N, "o")
    protect_snapshots(ctx, S)
    u = ctx.array("u", (N, d))
    ctx.protect("vector", u)
    ppp = np.array([1] * d)
    ctx.protect("ppp", ppp)
    nb = _nbfile(ctx, 1, topo)
    sym = ctx.mode == "sym"
    n2 = sum(u[i, c] * u[i, c] for i in range(N) for c in range(d))
    ctx.assume(O.gt(n2, 0) if sym else n2 > 1e-12)
    tot_abs = sum(abs(sum(u[i, c] * u[j, c] for c in range(d))) for i in range(N) for j in topo[i])
    ctx.assume(O.gt(tot_abs, 0) if sym else tot_abs > 1e-12)
    seq = [("participation_ratio", lambda: v.participation_ratio(u)), ("local_vector_alignment", lambda: v.local_vector_alignment(u, nb)),
           ("phase_quotient", lambda: v.phase_quotient(u, nb)), ("divergence_curl", lambda: v.divergence_curl(S.snapshots[0], u, ppp, nb))]
    first = [(n, f()) for n, f in seq]
    second = [(n, f()) for n, f in reversed(seq)][::-1]
    ctx.output("pr", first[0][1])
    for (n, a), (_, b) in zip(first, second):
        if isinstance(a, tuple):
            a, b = [x for x in a if x is not None], [x for x in b if x is not None]
        same(ctx, n, a, b)
    ctx.check_unchanged("frame")


def h_neighbors(ctx, d, N, F, cell):
    """neighbour writers called twice on the same snapshots write byte-identical files and leave the snapshots alone"""
    ctx.covers("PyMatterSim.neighbors.calculate_neighbors.Nnearests", "PyMatterSim.neighbors.calculate_neighbors.cutoffneighbors")
    nbm = ctx.repo("PyMatterSim.neighbors.calculate_neighbors")
    ru = ctx.repo("PyMatterSim.reader.reader_utils")
    rows, poss, S = _snapshots(ctx, ru, d, N, F, [1] * N, cell)
    protect_snapshots(ctx, S)
    sym = ctx.mode == "sym"
    ppp = np.array([0] * d)
    ctx.protect("ppp", ppp)
    for f in range(F):
        for i in range(N):
            for j in range(i + 1, N):
                d2 = sum((poss[f][i][a] - poss[f][j][a]) ** 2 for a in range(d))
                ctx.assume(O.gt(d2, 0) if sym else d2 > 1e-12)
    rc = _positive(ctx, "rc", 1.0)
    tmp = ctx.tmpdir()
    outs = []
    for k in range(2):
        p1, p2 = os.path.join(tmp, f"nn{k}.dat"), os.path.join(tmp, f"cut{k}.dat")
        nbm.Nnearests(S, N=N - 1, ppp=ppp, fnfile=p1)
        nbm.cutoffneighbors(S, r_cut=rc, ppp=ppp, fnfile=p2)
        outs.append((open(p1).read(), open(p2).read()))
    ctx.output("nn", outs[0][0])
    ctx.oblige("frame: Nnearests writes the same file twice", outs[0][0] == outs[1][0])
    ctx.oblige("frame: cutoffneighbors writes the same file twice", outs[0][1] == outs[1][1])
    ctx.check_unchanged("frame")


class _FreudStub:
    """freud.box.Box.from_box / freud.locality.Voronoi().compute((box, points)).volumes with arbitrary positive volumes"""

    def __init__(self, ctx):
        self.ctx = ctx
        self.n = 0
        stub = self

        class Box:
            @staticmethod
            def from_box(L, *a, **k):
                return ("box", L)

        class _Res:
            def __init__(self, vols):
                self.volumes = vols

        class Voronoi:
            def compute(self, system, *a, **k):
                from symx.npf import sarr
                box, pts = system
                stub.n += 1
                return _Res(sarr([stub.ctx.real(f"vol{stub.n}_{i}", positive=True) for i in range(len(pts))]))

        class _NS:
            pass
        self.box = _NS()
        self.box.Box = Box
        self.locality = _NS()
        self.locality.Voronoi = Voronoi


def h_volume_matrix(ctx, d, N, centred, outfile, outside=False):
    """VolumeMatrix perturbs a working copy only: snapshot.positions unchanged (also when the box is centred at the origin and
    convert_configuration hands the positions through without shifting)"""
    ctx.covers("PyMatterSim.neighbors.freud_neighbors.VolumeMatrix", "PyMatterSim.neighbors.freud_neighbors.convert_configuration")
    fn = ctx.repo("PyMatterSim.neighbors.freud_neighbors")
    ru = ctx.repo("PyMatterSim.reader.reader_utils")
    sym = ctx.mode == "sym"
    L = [C.const(ctx, x) for x in (3, 4, 5)[:d]]
    rows = [[L[a] if a == b else 0 for b in range(d)] for a in range(d)]
    lo = [(-L[a] / 2) for a in range(d)] if centred else [C.const(ctx, Fraction(1, 2))] * d
    base = [["1/3", "1/5", "1/7"], ["-2/5", "3/4", "1/2"], ["9/10", "-1/3", "-3/5"], ["-1/7", "-6/5", "4/5"], ["5/4", "7/6", "-1/9"]]
    pos = [[(float(Fraction(base[i][a])) if not sym else Fraction(base[i][a])) + ctx.real(f"e{i}_{a}", lo=-Fraction(1, 20), hi=Fraction(1, 20))
            + (0 if centred else lo[a] + L[a] / 2) for a in range(d)] for i in range(N)]
    if not sym:
        for i in range(N):
            for a in range(d):
                e = ctx.real(f"e{i}_{a}")
                if not (-0.05 <= e <= 0.05):
                    raise_abort = True
                    from symx.engine import PathAbort
                    raise PathAbort("perturbation outside the assumed range")
    if outside:
        # unwrapped coordinates: particle 0 sits one box length outside the primary cell along x, particle 1 two along y
        pos[0][0] = pos[0][0] + L[0]
        pos[1][1] = pos[1][1] - 2 * L[1]
    snap = C.snapshot(ctx, ru, 0, [1] * N, C.farr(ctx, pos), rows, lo=lo)
    S = ru.Snapshots(nsnapshots=1, snapshots=[snap])
    protect_snapshots(ctx, S)
    _clear_records(ctx)
    saved = None
    if sym:
        saved = fn.__dict__.get("freud")
        fn.__dict__["freud"] = _FreudStub(ctx)
    try:
        tmp = ctx.tmpdir()
        path = os.path.join(tmp, "vol.npy") if outfile else ""
        m1 = fn.VolumeMatrix(S, ndim=d, nconfig=0, deltar=C.const(ctx, Fraction(1, 100)), transform_matrix=False, outputfile=path)
        if outfile:
            written_equals(ctx, "VolumeMatrix", "npy", path, m1)
    finally:
        if sym:
            fn.__dict__["freud"] = saved
    ctx.output("shape", list(np.asarray(m1).shape))
    ctx.oblige("frame: VolumeMatrix shape", tuple(np.asarray(m1).shape) == (N, N * d))
    ctx.check_unchanged("frame")


# ------------------------------------------------------------------------------------------------ configurations

TOPO3 = [[1, 2], [0], [0, 1]]


def cfg_static(tier, seed):
    out = [dict(d=2, N=3, F=2, types=[1, 2, 1]), dict(d=2, N=3, F=1, types=[1, 1, 1])]
    if tier == "thorough":
        out += [dict(d=3, N=3, F=2, types=[1, 2, 2]), dict(d=2, N=4, F=2, types=[1, 2, 3, 1])]
    return out


def cfg_gyr(tier, seed):
    return [dict(N=3, d=2), dict(N=3, d=3)] + ([dict(N=4, d=2)] if tier == "thorough" else [])


def cfg_boo2d(tier, seed):
    out = [dict(l=2, N=2, F=3, topo=[[1], [0]], weighted=False), dict(l=4, N=2, F=3, topo=[[1], [0]], weighted=True)]
    if tier == "thorough":
        out.append(dict(l=4, N=3, F=3, topo=TOPO3, weighted=False))
    return out


def cfg_boo3d(tier, seed):
    out = [dict(l=2, N=3, F=2, topo=TOPO3, weighted=False), dict(l=1, N=3, F=1, topo=TOPO3, weighted=True)]
    if tier == "thorough":
        out.append(dict(l=6, N=3, F=2, topo=TOPO3, weighted=True))
    return out


def cfg_dyn(tier, seed):
    out = [dict(d=2, N=2, F=3, types=[1, 2], mode="slow")]
    if tier == "thorough":
        out.append(dict(d=3, N=2, F=3, types=[1, 1], mode="fast"))
    return out


def cfg_coarse(tier, seed):
    return [dict(N=2, F=3, topo=[[1], [0]])]


def cfg_vector(tier, seed):
    return [dict(N=3, d=2, topo=TOPO3)] + ([dict(N=3, d=3, topo=TOPO3)] if tier == "thorough" else [])


def cfg_nb(tier, seed):
    return [dict(d=2, N=3, F=1, cell="o"), dict(d=2, N=2, F=2, cell="o")] + ([dict(d=3, N=3, F=1, cell="o")] if tier == "thorough" else [])


def cfg_vol(tier, seed):
    out = [dict(d=2, N=4, centred=True, outfile=False), dict(d=2, N=4, centred=False, outfile=False), dict(d=2, N=4, centred=True, outfile=True),
           dict(d=3, N=4, centred=True, outfile=False), dict(d=3, N=4, centred=True, outfile=False, outside=True),
           dict(d=2, N=4, centred=True, outfile=False, outside=True)]
    if tier == "thorough":
        out += [dict(d=3, N=5, centred=True, outfile=False), dict(d=3, N=4, centred=False, outfile=True)]
    return out


HARNESSES = [
    H("static_sequence", h_static, cfg_static, timeout_ms=30000, abstract=True, budget_s=300),
    H("gyration", h_gyration, cfg_gyr, timeout_ms=30000, abstract=True),
    H("boo2d_state", h_boo2d, cfg_boo2d, timeout_ms=30000, abstract=True),
    H("boo3d_state", h_boo3d, cfg_boo3d, timeout_ms=30000, abstract=True, budget_s=300),
    H("dynamics_sequence", h_dynamics, cfg_dyn, timeout_ms=30000, abstract=True, budget_s=300),
    H("sq4_state", h_sq4_state, lambda tier, seed: [dict(d=2, N=2, F=2)] + ([dict(d=2, N=2, F=3)] if tier == "thorough" else []),
      timeout_ms=30000, abstract=True, budget_s=300),
    H("coarse_graining", h_coarse, cfg_coarse, timeout_ms=30000, abstract=True),
    H("vector_measures", h_vector, cfg_vector, timeout_ms=30000, abstract=True),
    H("neighbour_writers", h_neighbors, cfg_nb, timeout_ms=30000, abstract=True, budget_s=300),
    H("volume_matrix", h_volume_matrix, cfg_vol, timeout_ms=30000, abstract=True, witness_tries=6),
] + _frame_harnesses()
