"""C15 vector-field measures and the longitudinal/transverse split obey definitions (DESIGN C15)."""
import os
from fractions import Fraction

import numpy as np

from symx import ops as O
from symx.run import H
from checks import common as C
from checks.c04 import BOXES

FUNCS = ["PyMatterSim.static.vector.participation_ratio", "PyMatterSim.static.vector.local_vector_alignment",
         "PyMatterSim.static.vector.phase_quotient", "PyMatterSim.static.vector.divergence_curl",
         "PyMatterSim.static.vector.vibrability", "PyMatterSim.static.vector.vector_decomposition_sq",
         "PyMatterSim.static.vector.vector_fft_corr"]
BOUNDS = {
    "quick": "all field values, positions and eigenvalues symbolic; N<=4 (participation ratio bounds), N=3 with concrete neighbour "
             "topologies (alignment, phase quotient, divergence/curl in 2D and 3D, open and concrete periodic cells), 2 modes x 2 "
             "particles (vibrability), Q<=3 wave vectors in concrete boxes (decomposition), F=2 frames (correlation variant)",
    "thorough": "as quick with N<=5 neighbour harnesses (triclinic, mixed masks), Q=4, N=4 decomposition, F=3 correlation",
}
STUBS = ["cos/sin of a phase -> structural cache", "np.rint -> symbol + lemma instances", "np.save / to_csv -> recorders (symbolic run)"]
ASSUMPTIONS = ["floats modelled as reals", "non-zero field (participation ratio defined)", "non-zero wave vectors", "sum of |dot products| "
               "non-zero (phase quotient defined)"]


def _nbfile(ctx, topo):
    p = os.path.join(ctx.tmpdir(), "nb.dat")
    with open(p, "w") as fh:
        fh.write("id cn neighborlist\n")
        for i, lst in enumerate(topo):
            fh.write(" ".join([str(i + 1), str(len(lst))] + [str(j + 1) for j in lst]) + "\n")
    return p


def h_pr(ctx, N, d):
    ctx.covers(FUNCS[0])
    v = ctx.repo("PyMatterSim.static.vector")
    e = ctx.array("e", (N, d))
    a = [sum(e[i, c] * e[i, c] for c in range(d)) for i in range(N)]
    S1 = sum(a)
    Q = sum(x * x for x in a)
    ctx.assume(O.gt(S1, 0) if ctx.mode == "sym" else S1 > 1e-12)
    pr = v.participation_ratio(e)
    ctx.output("pr", pr)
    ctx.oblige("formula", O.eq(pr, S1 * S1 / (N * Q)))
    lam = ctx.real("lam", positive=True)
    pr2 = v.participation_ratio(e * lam)
    ctx.oblige("scale invariant", O.eq(pr2, pr))
    # bounds through one non-negative symbol per particle norm
    if ctx.mode == "sym":
        As = [ctx.define(f"a{i}", a[i]) for i in range(N)]
        prem = []
        for i in range(N):
            f = O.ge(As[i], 0)
            ctx.oblige(f"|e_{i}|^2 >= 0", O.ge(a[i], 0))
            ctx.assume(f)
            prem.append(f)
        s_ = sum(As)
        q_ = sum(x * x for x in As)
        pos = O.gt(s_, 0)
        ctx.assume(pos)
        prem.append(pos)
        ctx.oblige("PR = (sum a)^2 / (N sum a^2)", O.eq(pr, s_ * s_ / (N * q_), expand=True))
        ctx.oblige("PR <= 1", O.le(s_ * s_, N * q_), using=prem)
        ctx.oblige("PR >= 1/N", O.ge(s_ * s_, q_), using=prem)
    else:
        ctx.oblige("PR <= 1", O.le(pr, 1))
        ctx.oblige("PR >= 1/N", O.ge(pr, 1.0 / N))


def h_neighbors(ctx, N, d, topo, cell, ppp):
    ctx.covers(FUNCS[1], FUNCS[2], FUNCS[3])
    v = ctx.repo("PyMatterSim.static.vector")
    ru = ctx.repo("PyMatterSim.reader.reader_utils")
    sym = ctx.mode == "sym"
    rows = C.make_cell(ctx, d, cell)
    pos = [[ctx.real(f"p{i}_{a}") for a in range(d)] for i in range(N)]
    snap = C.snapshot(ctx, ru, 0, [1] * N, C.farr(ctx, pos), rows)
    u = ctx.array("u", (N, d))
    nb = _nbfile(ctx, topo)
    al = v.local_vector_alignment(u, nb)
    ctx.output("align", al)
    dots = {}
    for i in range(N):
        ds = [sum(u[i, c] * u[j, c] for c in range(d)) for j in topo[i]]
        dots[i] = ds
        ctx.oblige(f"alignment[{i}]", O.eq(al[i], sum(ds) / len(ds)))
    tot_abs = sum(abs(x) for i in range(N) for x in dots[i])
    ctx.assume(O.gt(tot_abs, 0) if sym else tot_abs > 1e-12)
    pq = v.phase_quotient(u, nb)
    ctx.output("pq", pq)
    tot = sum(x for i in range(N) for x in dots[i])
    ctx.oblige("phase quotient", O.eq(pq, tot / tot_abs))
    if sym:
        ts = [ctx.define(f"t{i}_{k}", x) for i in range(N) for k, x in enumerate(dots[i])]
        s0, s1 = sum(ts), sum(abs(t) for t in ts)
        posf = O.gt(s1, 0)
        ctx.assume(posf)
        ctx.oblige("phase quotient = sum t / sum |t|", O.eq(pq, s0 / s1, expand=True))
        ctx.oblige("|sum t| <= sum |t|", O.And(O.le(s0, s1), O.ge(s0, -s1)), using=[posf])
    else:
        ctx.oblige("phase quotient in [-1,1]", O.And(O.le(pq, 1, 1e-9), O.ge(pq, -1, 1e-9)))
    out = v.divergence_curl(snap, u, np.array(ppp), nb)
    div, curl = (out, None) if d == 2 else out
    ctx.output("div", div)
    for i in range(N):
        dv = 0
        cr = [0, 0, 0]
        for j in topo[i]:
            r = C.min_image(ctx, [pos[j][a] - pos[i][a] for a in range(d)], rows, ppp)
            w = [u[j, c] - u[i, c] for c in range(d)]
            dv = dv + sum(r[c] * w[c] for c in range(d))
            if d == 3:
                cr = [cr[0] + r[1] * w[2] - r[2] * w[1], cr[1] + r[2] * w[0] - r[0] * w[2], cr[2] + r[0] * w[1] - r[1] * w[0]]
        ctx.oblige(f"divergence[{i}]", O.eq(div[i], dv / len(topo[i])))
        if d == 3:
            for c in range(3):
                ctx.oblige(f"curl[{i},{c}]", O.eq(curl[i, c], cr[c] / len(topo[i])))


def h_vib(ctx, N, d):
    ctx.covers(FUNCS[4])
    v = ctx.repo("PyMatterSim.static.vector")
    M = 2
    om = ctx.array("omega", (M,), positive=True)
    ev = ctx.array("ev", (N * d, M))
    res = v.vibrability(om, ev, N)
    ctx.output("vib", res)
    for i in range(N):
        want = sum(sum(ev[i * d + c, k] ** 2 for c in range(d)) / (om[k] * om[k]) for k in range(M))
        ctx.oblige(f"vibrability[{i}]", O.eq(res[i], want))


def _decomp_reference(ctx, d, N, L, pos, field, qvec):
    pi_ = O.pi(ctx)
    out = []
    for n in qvec:
        q = [2 * pi_ * int(n[a]) / L[a] for a in range(d)]
        fre, fim = [0] * d, [0] * d
        for i in range(N):
            th = sum(q[a] * pos[i][a] for a in range(d))
            c, s = O.cos_sin(th)
            for a in range(d):
                fre[a] = fre[a] + c * field[i, a]
                fim[a] = fim[a] - s * field[i, a]
        rn = O.sqrt(C.const(ctx, N)) if ctx.mode != "sym" else __import__("symx.scalar", fromlist=["sqrt"]).sqrt(N)
        fre = [x / rn for x in fre]
        fim = [x / rn for x in fim]
        out.append((q, fre, fim))
    return out


def h_decomp(ctx, d, N, box, qvec):
    ctx.covers(FUNCS[5])
    v = ctx.repo("PyMatterSim.static.vector")
    ru = ctx.repo("PyMatterSim.reader.reader_utils")
    L = [C.const(ctx, x) for x in BOXES[d][box]]
    rows = [[L[a] if a == b else 0 for b in range(d)] for a in range(d)]
    pos = [[ctx.real(f"p{i}_{a}") for a in range(d)] for i in range(N)]
    snap = C.snapshot(ctx, ru, 0, [1] * N, C.farr(ctx, pos), rows)
    field = ctx.array("u", (N, d))
    per_q, ave = v.vector_decomposition_sq(snap, C.iarr(ctx, qvec), field)
    ctx.output("Sq", np.asarray(per_q["Sq"].values))
    ref = _decomp_reference(ctx, d, N, L, pos, field, qvec)
    for k, (q, fre, fim) in enumerate(ref):
        q2 = sum(x * x for x in q)
        Lre = [per_q[f"L_FFT{a}"].values[k] for a in range(d)]
        Tre = [per_q[f"T_FFT{a}"].values[k] for a in range(d)]
        Fv = [per_q[f"FFT{a}"].values[k] for a in range(d)]
        for a in range(d):
            fr, fi = O.re_im(Fv[a])
            ctx.oblige(f"FFT{a}[{k}]", O.And(O.eq(fr, fre[a], atol=1e-7), O.eq(fi, fim[a], atol=1e-7)))
            lr, li = O.re_im(Lre[a])
            tr, ti = O.re_im(Tre[a])
            # L = (q^.F) q^
            pr_re = sum(q[b] * fre[b] for b in range(d)) / q2
            pr_im = sum(q[b] * fim[b] for b in range(d)) / q2
            ctx.oblige(f"L parallel to q: L{a}[{k}]", O.And(O.eq(lr, pr_re * q[a], atol=1e-7), O.eq(li, pr_im * q[a], atol=1e-7)))
            ctx.oblige(f"L + T = F: {a}[{k}]", O.And(O.eq(lr + tr, fre[a], atol=1e-7), O.eq(li + ti, fim[a], atol=1e-7)))
        dre = sum(q[a] * O.re_im(Tre[a])[0] for a in range(d))
        dim = sum(q[a] * O.re_im(Tre[a])[1] for a in range(d))
        ctx.oblige(f"q . T = 0 [{k}]", O.And(O.eq(dre, 0, atol=1e-6), O.eq(dim, 0, atol=1e-6)))
        ctx.oblige(f"S = S_L + S_T [{k}]", O.eq(per_q["Sq"].values[k], per_q["Sq_L"].values[k] + per_q["Sq_T"].values[k], atol=1e-6))
        S = sum(fre[a] * fre[a] + fim[a] * fim[a] for a in range(d))
        ctx.oblige(f"Sq[{k}]", O.eq(per_q["Sq"].values[k], S, atol=1e-6))


def h_corr(ctx, d, N, F, box, qvec):
    ctx.covers(FUNCS[6])
    v = ctx.repo("PyMatterSim.static.vector")
    tc = ctx.repo("PyMatterSim.dynamic.time_corr")
    ru = ctx.repo("PyMatterSim.reader.reader_utils")
    L = [C.const(ctx, x) for x in BOXES[d][box]]
    rows = [[L[a] if a == b else 0 for b in range(d)] for a in range(d)]
    snaps, fields = [], []
    for f in range(F):
        pos = [[ctx.real(f"p{f}_{i}_{a}") for a in range(d)] for i in range(N)]
        snaps.append(C.snapshot(ctx, ru, 10 * (f + 1), [1] * N, C.farr(ctx, pos), rows))
    S = ru.Snapshots(nsnapshots=F, snapshots=snaps)
    vec = ctx.array("u", (F, N, d))
    dt = ctx.real("dt", positive=True)
    out = os.path.join(ctx.tmpdir(), "corr")
    # per-frame decompositions (the documented building block), then the C14 oracle per wave vector
    per = [v.vector_decomposition_sq(S.snapshots[f], C.iarr(ctx, qvec), vec[f])[0] for f in range(F)]
    for k in range(len(qvec)):
        n0 = sum(O.re_im(per[0][f"{h}{a}"].values[k])[0] ** 2 + O.re_im(per[0][f"{h}{a}"].values[k])[1] ** 2
                 for a in range(d) for h in ("T_FFT", "L_FFT"))
        for h in ("FFT", "T_FFT", "L_FFT"):
            z = sum(O.re_im(per[f][f"{h}{a}"].values[k])[0] ** 2 + O.re_im(per[f][f"{h}{a}"].values[k])[1] ** 2 for a in range(d) for f in range(F))
            ctx.assume(O.Not(O.eq(z, 0)) if ctx.mode == "sym" else abs(z) > 1e-9)
    res = v.vector_fft_corr(S, C.iarr(ctx, qvec), vec, dt=dt, outputfile=out)
    ctx.oblige("keys", sorted(res.keys()) == ["FFT", "L_FFT", "T_FFT"])
    for h in ("FFT", "T_FFT", "L_FFT"):
        tab = res[h]
        for k in range(len(qvec)):
            series = []
            for f in range(F):
                series.append([per[f][f"{h}{a}"].values[k] for a in range(d)])
            # C14 oracle (even spacing): C(lag) = mean over origins of Re sum_a A_a(t+lag) conj A_a(t), normalised
            def prod(t1, t0):
                tot = 0
                for a in range(d):
                    r1, i1 = O.re_im(series[t1][a])
                    r0, i0 = O.re_im(series[t0][a])
                    tot = tot + r1 * r0 + i1 * i0
                return tot
            c0 = sum(prod(t, t) for t in range(F)) / F
            vals = tab.values[k]
            for lag in range(F):
                num = sum(prod(t + lag, t) for t in range(F - lag)) / (F - lag)
                ctx.oblige(f"{h} correlation[q{k},lag{lag}]", O.eq(vals[d + 1 + lag], num / c0, atol=1e-6))


def cfg_pr(tier, seed):
    return [dict(N=2, d=2), dict(N=3, d=2), dict(N=4, d=2), dict(N=3, d=3)] + ([dict(N=4, d=3), dict(N=5, d=2)] if tier == "thorough" else [])


def cfg_nb(tier, seed):
    out = [dict(N=3, d=2, topo=[[1, 2], [0], [0, 1]], cell="o", ppp=[0, 0]),
           dict(N=3, d=3, topo=[[1, 2], [2], [0]], cell="o", ppp=[0, 0, 0]),
           dict(N=3, d=2, topo=[[1], [0, 2], [1]], cell="t-", ppp=[1, 1]),
           dict(N=3, d=3, topo=[[1], [2], [0, 1]], cell="o", ppp=[1, 1, 0])]
    if tier == "thorough":
        out.append(dict(N=4, d=3, topo=[[1, 2, 3], [0], [3], [0, 1]], cell="t+", ppp=[1, 1, 1]))
        out.append(dict(N=4, d=3, topo=[[1], [0, 2, 3], [3, 1], [2]], cell="t-", ppp=[1, 0, 1]))
        out.append(dict(N=4, d=2, topo=[[1, 2, 3], [2], [0, 3], [1]], cell="t+", ppp=[1, 1]))
        out.append(dict(N=5, d=2, topo=[[1, 4], [0, 2], [3], [4, 0, 1], [2]], cell="o", ppp=[0, 1]))
    return out


def cfg_vib(tier, seed):
    return [dict(N=2, d=2), dict(N=2, d=3)] + ([dict(N=3, d=2), dict(N=3, d=3)] if tier == "thorough" else [])


def cfg_decomp(tier, seed):
    out = [dict(d=2, N=2, box=0, qvec=[[1, 0], [0, 1], [1, 1]]), dict(d=2, N=3, box=1, qvec=[[1, -1], [2, 0]]),
           dict(d=3, N=2, box=0, qvec=[[1, 0, 0], [0, 1, 1]])]
    if tier == "thorough":
        out.append(dict(d=3, N=3, box=1, qvec=[[1, 1, 1], [0, 0, 1], [1, 0, -1], [2, 0, 0]]))
        out.append(dict(d=2, N=4, box=2, qvec=[[1, 2], [-2, 1], [3, 0], [0, -1]]))
        out.append(dict(d=3, N=4, box=0, qvec=[[1, -1, 0], [0, 2, 1]]))
    return out


def cfg_corr(tier, seed):
    return [dict(d=2, N=2, F=2, box=0, qvec=[[1, 0], [1, 1]])] + \
        ([dict(d=2, N=2, F=3, box=1, qvec=[[1, -1], [0, 2]]), dict(d=3, N=2, F=2, box=0, qvec=[[1, 0, 1]])] if tier == "thorough" else [])


HARNESSES = [H("participation_ratio", h_pr, cfg_pr, timeout_ms=30000), H("neighbour_measures", h_neighbors, cfg_nb, timeout_ms=30000),
             H("vibrability", h_vib, cfg_vib), H("decomposition", h_decomp, cfg_decomp, timeout_ms=30000),
             H("fft_correlation", h_corr, cfg_corr, timeout_ms=30000)]
