"""shared harness helpers: cells, snapshots, reference minimum-image geometry"""
from fractions import Fraction

import numpy as np

from symx import ops as O

CELLS2 = {  # concrete rational cells (rows are cell vectors), unequal edges, both tilt signs
    "o": [["3", "0"], ["0", "4"]],
    "t+": [["3", "0"], ["1/2", "4"]],
    "t-": [["3", "0"], ["-3/4", "5/2"]],
    "t-s": [["3", "0"], ["1", "5/2"]],          # same edge lengths as t-, other tilt (sheared box)
}
CELLS3 = {
    "o": [["3", "0", "0"], ["0", "4", "0"], ["0", "0", "5"]],
    "t+": [["3", "0", "0"], ["1/2", "4", "0"], ["1/4", "-1/2", "5"]],
    "t-": [["3", "0", "0"], ["-3/4", "5/2", "0"], ["1/3", "2/3", "7/2"]],
}


def const(ctx, q):
    q = Fraction(q)
    return q if ctx.mode == "sym" else float(q)


def farr(ctx, rows):
    """float-like array from nested lists of numbers / proxies"""
    if ctx.mode == "sym":
        from symx.npf import sarr
        return _auto(ctx, sarr(rows))
    return _auto(ctx, np.array(rows, dtype=float))


def _auto(ctx, arr):
    """frame mode (C18): every array a harness hands to the code under test is put under the frame condition"""
    if getattr(ctx, "frame", False) and isinstance(arr, np.ndarray) and arr.ndim:
        ctx._nprot = getattr(ctx, "_nprot", 0) + 1
        ctx.protect(f"arg#{ctx._nprot}{list(arr.shape)}", arr)
    return arr


def iarr(ctx, vals):
    a = np.array(vals, dtype=int)
    if ctx.mode == "sym":
        from symx.npf import carr
        return _auto(ctx, carr(a))
    return _auto(ctx, a)


def make_cell(ctx, d, kind):
    """kind: 'sym-o' symbolic orthogonal (positive lengths), 'sym-t' symbolic lower triangular, or a key of CELLS*"""
    if kind == "sym-o":
        L = [ctx.real(f"L{a}", positive=True) for a in range(d)]
        rows = [[L[a] if a == b else 0 for b in range(d)] for a in range(d)]
    elif kind == "sym-t":
        rows = [[0] * d for _ in range(d)]
        for a in range(d):
            rows[a][a] = ctx.real(f"h{a}{a}", positive=True)
            for b in range(a):
                rows[a][b] = ctx.real(f"h{a}{b}")
    else:
        tab = CELLS2 if d == 2 else CELLS3
        rows = [[const(ctx, x) for x in r] for r in tab[kind]]
    if ctx.mode == "conc":
        for a in range(d):
            if not rows[a][a] > 0:
                rows[a][a] = 1.0
    return rows


def snapshot(ctx, ru, ts, types, pos, rows, lo=None):
    d = len(rows)
    hm = farr(ctx, rows)
    boxlength = farr(ctx, [rows[a][a] for a in range(d)])
    lo = lo if lo is not None else [0] * d
    bounds = farr(ctx, [[lo[a], lo[a] + rows[a][a]] for a in range(d)])
    tri = any(rows[a][b] != 0 for a in range(d) for b in range(d) if a != b) if ctx.mode == "conc" or not _anysym(rows) else True
    return ru.SingleSnapshot(timestep=ts, nparticle=len(types), particle_type=iarr(ctx, types),
                             positions=pos, boxlength=boxlength, boxbounds=bounds,
                             realbounds=bounds if tri else None, hmatrix=hm)


def _anysym(rows):
    from symx.scalar import SR
    return any(isinstance(x, SR) for r in rows for x in r)


def frac_coords(vec, rows):
    """f with vec = f . H for lower-triangular H (back substitution)"""
    d = len(rows)
    f = [None] * d
    for k in reversed(range(d)):
        acc = vec[k]
        for j in range(k + 1, d):
            acc = acc - f[j] * rows[j][k]
        f[k] = acc / rows[k][k]
    return f


def min_image(ctx, vec, rows, ppp):
    """reference minimum-image vector of `vec` in the cell `rows` on the periodic axes `ppp`.
    Symbolic run: rint is the code's own rint symbol for the true fractional coordinate (a fresh one, with the
    same lemma instances, if the code never rounded it)."""
    d = len(rows)
    f = frac_coords(vec, rows)
    n = []
    for k in range(d):
        if ppp[k]:
            nk = O.rint(f[k])
            n.append(nk)
            # away from exact half-cell ties (the image of a tie is unspecified and differs between float evaluation orders)
            if ctx.mode == "sym":
                half = Fraction(1, 2)
                c = O.And(O.lt(f[k] - nk, half), O.lt(nk - f[k], half))
                if not isinstance(c, bool):
                    ctx.assume(c)
            else:
                ctx.assume(abs(f[k] - nk) < 0.5 - 1e-9)
        else:
            n.append(0)
    out = []
    for a in range(d):
        v = vec[a]
        for k in range(d):
            if ppp[k]:
                v = v - n[k] * rows[k][a]
        out.append(v)
    return out


def norm2(v):
    t = 0
    for x in v:
        t = t + x * x
    return t


def cauchy_schwarz(ctx, a, b, tag):
    """(a.b)^2 <= |a|^2 |b|^2 for two real vectors of terms, *decided* rather than assumed:
    (i) Lagrange's identity |a|^2|b|^2 - (a.b)^2 = sum_{k<l} (a_k b_l - a_l b_k)^2 is discharged as a polynomial identity
        (normal form, every minor d_kl a defined symbol that is expanded for the comparison);
    (ii) with the identity as a premise the inequality is a linear consequence of d_kl^2 >= 0.
    Returns the inequality as a fact (assumed on the path only after both steps were discharged), or None."""
    dot = sum(x * y for x, y in zip(a, b))
    na = sum(x * x for x in a)
    nb = sum(y * y for y in b)
    if ctx.mode != "sym":
        ctx.oblige(f"{tag}: (a.b)^2 <= |a|^2|b|^2", O.le(dot * dot, na * nb, 1e-9))
        return None
    ds = []
    n = len(a)
    for k in range(n):
        for l in range(k + 1, n):
            ds.append(ctx.define(f"{tag}.d{k}_{l}", a[k] * b[l] - a[l] * b[k]))
    sos = sum(d * d for d in ds)
    lhs = na * nb - dot * dot
    ident = O.eq(lhs, sos, expand=True)
    ctx.oblige(f"{tag}: Lagrange identity |a|^2|b|^2 - (a.b)^2 = sum of squared 2x2 minors", ident)
    if not (ident is True or getattr(ident, "structural", False)):
        return None
    fact = O.eq(lhs, sos)
    if isinstance(fact, bool):
        return None
    ctx.assume(fact)
    goal = O.le(dot * dot, na * nb)
    ctx.oblige(f"{tag}: (a.b)^2 <= |a|^2|b|^2", goal, using=[fact])
    if not isinstance(goal, bool):
        ctx.assume(goal)
    ctx.lemma("Cauchy-Schwarz decided through Lagrange's identity (sum of squared minors), not assumed")
    return goal
