"""C19 header writer, auxiliary readers and the dump reader agree on the same data (DESIGN C19)."""
import os
from fractions import Fraction
from itertools import permutations, product
from types import SimpleNamespace

import numpy as np

from symx import ops as O
from symx.run import H

FUNCS = ["PyMatterSim.writer.lammps_writer.write_dump_header",
         "PyMatterSim.reader.lammps_reader_helper.read_lammps_wrapper",
         "PyMatterSim.reader.lammps_reader_helper.read_lammps_centertype_wrapper",
         "PyMatterSim.reader.lammps_reader_helper.read_lammps_centertype",
         "PyMatterSim.reader.lammps_reader_helper.read_lammps_vector_wrapper",
         "PyMatterSim.reader.lammps_reader_helper.read_lammps_vector",
         "PyMatterSim.reader.lammps_reader_helper.read_additions",
         "PyMatterSim.reader.gsd_reader_helper.read_gsd",
         "PyMatterSim.reader.gsd_reader_helper.read_gsd_dcd"]
BOUNDS = {
    "quick": "d in {2,3}; N<=3 atoms, F<=2 frames, all line orders; symbolic timestep, bounds, coordinates, extra columns; "
             "type maps over subsets of {1,2,3}; column lists of length 1..2; duck-typed HOOMD frames with symbolic "
             "positions/box (N=2, F<=2)",
    "thorough": "as quick with N=3 everywhere and F=3 for the column readers; log reader: 1..3 sections with 1..3 thermo rows each (row counts are integer symbols concretised by forking; numeric content concrete)",
}
STUBS = ["numerals are opaque placeholder tokens ('to written precision' = identity in the symbolic run; the concrete "
         "replay compares at 1e-6)", "HOOMD/DCD files are duck-typed frame objects (the gsd/mdtraj parsers are not run)"]
ASSUMPTIONS = ["floats modelled as reals", "read_lammpslog is NOT covered (its data path is pandas' C parser; no numeric input)"]


def _atom_lines(ctx, N, d, order, types, coords, extras):
    out = []
    for i in order:
        out.append(" ".join([str(i + 1), str(types[i])] + [ctx.fmt(v) for v in coords[i]] + [ctx.fmt(v) for v in extras[i]]))
    return out


def h_roundtrip(ctx, d, N, order):
    """write_dump_header + atom lines -> read_lammps_wrapper"""
    ctx.covers(FUNCS[0], FUNCS[1])
    wr = ctx.repo("PyMatterSim.writer.lammps_writer")
    rd = ctx.repo("PyMatterSim.reader.lammps_reader_helper")
    sym = ctx.mode == "sym"
    ts = ctx.real("ts")
    if not sym:
        ts = int(round(ts))
    lo = [ctx.real(f"lo{a}") for a in range(d)]
    hi = [ctx.real(f"hi{a}") for a in range(d)]
    for a in range(d):
        ctx.assume(O.gt(hi[a], lo[a]))
    bounds = [[lo[a], hi[a]] for a in range(d)]
    header = wr.write_dump_header(ts, N, bounds, addson="order")
    coords = [[ctx.real(f"c{i}_{a}") for a in range(d)] for i in range(N)]
    for i in range(N):
        for a in range(d):
            ctx.assume(O.And(O.ge(coords[i][a], lo[a]), O.le(coords[i][a], hi[a])))
    extras = [[ctx.real(f"e{i}")] for i in range(N)]
    types = [1, 2, 1][:N]
    text = header + "\n".join(_atom_lines(ctx, N, d, order, types, coords, extras)) + "\n"
    path = os.path.join(ctx.tmpdir(), "w.atom")
    with open(path, "w") as fh:
        fh.write(text)
    snaps = rd.read_lammps_wrapper(path, ndim=d)
    ctx.oblige("one frame", snaps.nsnapshots == 1)
    sn = snaps.snapshots[0]
    ctx.output("bounds", sn.boxbounds)
    ctx.oblige("timestep", O.eq(sn.timestep, ts))
    ctx.oblige("nparticle", sn.nparticle == N)
    for a in range(d):
        ctx.oblige(f"bounds[{a}]", O.And(O.eq(sn.boxbounds[a, 0], lo[a], atol=2e-6), O.eq(sn.boxbounds[a, 1], hi[a], atol=2e-6)))
    for i in range(N):
        for a in range(d):
            ctx.oblige(f"pos[{i},{a}]", O.eq(sn.positions[i, a], coords[i][a]))


def _dump_text(ctx, d, N, F, orders, types, style, ncol_extra, tag=""):
    frames, lines = [], []
    for f in range(F):
        ts = ctx.real(f"ts{f}")
        if ctx.mode != "sym":
            ts = int(round(ts))
        lo = [ctx.real(f"lo{f}_{a}") for a in range(3)]
        hi = [ctx.real(f"hi{f}_{a}") for a in range(3)]
        for a in range(3):
            ctx.assume(O.gt(hi[a], lo[a]))
        coords = [[ctx.real(f"c{f}_{i}_{a}") for a in range(d)] for i in range(N)]
        extras = [[ctx.real(f"e{f}_{i}_{k}") for k in range(ncol_extra)] for i in range(N)]
        lines += ["ITEM: TIMESTEP", ctx.fmt(ts) if ctx.mode == "sym" else str(ts), "ITEM: NUMBER OF ATOMS", str(N),
                  "ITEM: BOX BOUNDS pp pp pp"]
        for a in range(3):
            lines.append(f"{ctx.fmt(lo[a])} {ctx.fmt(hi[a])}")
        names = {"x": "x y z", "xs": "xs ys zs", "xu": "xu yu zu"}[style].split()[:d]
        lines.append("ITEM: ATOMS id type " + " ".join(names) + "".join(f" q{k}" for k in range(ncol_extra)))
        lines += _atom_lines(ctx, N, d, orders[f], types, coords, extras)
        frames.append(dict(ts=ts, lo=lo, hi=hi, coords=coords, extras=extras))
    path = os.path.join(ctx.tmpdir(), "d.atom")
    with open(path, "w") as fh:
        fh.write("\n".join(lines) + "\n")
    return path, frames


def h_center(ctx, d, N, F, orders, types, style, moltypes):
    """molecule-centre reader: atoms whose type is a key, relabelled by value, order by id"""
    ctx.covers(FUNCS[2], FUNCS[3])
    rd = ctx.repo("PyMatterSim.reader.lammps_reader_helper")
    path, frames = _dump_text(ctx, d, N, F, orders, types, style, 0)
    if style == "x":
        for fr in frames:
            for i in range(N):
                for a in range(d):
                    ctx.assume(O.And(O.ge(fr["coords"][i][a], fr["lo"][a]), O.le(fr["coords"][i][a], fr["hi"][a])))
    mt = {int(k): int(v) for k, v in moltypes.items()}
    snaps = rd.read_lammps_centertype_wrapper(path, ndim=d, moltypes=mt)
    ctx.oblige("nsnapshots", snaps.nsnapshots == F)
    keep = [i for i in range(N) if types[i] in mt]
    for f, (fr, sn) in enumerate(zip(frames, snaps.snapshots)):
        ctx.output(f"pos{f}", sn.positions)
        ctx.oblige(f"count[{f}]", sn.nparticle == len(keep) and sn.positions.shape[0] == len(keep))
        ctx.oblige(f"types[{f}]", [int(t) for t in sn.particle_type] == [mt[types[i]] for i in keep])
        ctx.oblige(f"timestep[{f}]", O.eq(sn.timestep, fr["ts"]))
        for j, i in enumerate(keep):
            for a in range(d):
                c = fr["coords"][i][a]
                want = c if style in ("x", "xu") else fr["lo"][a] + c * (fr["hi"][a] - fr["lo"][a])
                ctx.oblige(f"pos[{f},{j},{a}]", O.eq(sn.positions[j, a], want))


def h_columns(ctx, d, N, F, orders, types, cols):
    """column readers: requested columns by atom id for every frame"""
    ctx.covers(FUNCS[4], FUNCS[5], FUNCS[6])
    rd = ctx.repo("PyMatterSim.reader.lammps_reader_helper")
    nex = 2
    path, frames = _dump_text(ctx, d, N, F, orders, types, "x", nex)
    # 1-based column ids: 1=id 2=type 3..2+d coordinates, then extras
    snaps = rd.read_lammps_vector_wrapper(path, ndim=d, columnsids=list(cols))
    ctx.oblige("nsnapshots", snaps.nsnapshots == F)

    def column(fr, i, c1):          # c1: 1-based column id
        k = c1 - 1
        if k < 2:
            return (i + 1) if k == 0 else types[i]
        if k < 2 + d:
            return fr["coords"][i][k - 2]
        return fr["extras"][i][k - 2 - d]
    for f, (fr, sn) in enumerate(zip(frames, snaps.snapshots)):
        ctx.output(f"vec{f}", sn.positions)
        ctx.oblige(f"types[{f}]", [int(t) for t in sn.particle_type] == list(types))
        ctx.oblige(f"timestep[{f}]", O.eq(sn.timestep, fr["ts"]))
        for i in range(N):
            for j, c1 in enumerate(cols):
                ctx.oblige(f"vector[{f},{i},{j}]", O.eq(sn.positions[i, j], column(fr, i, c1)))
    for c0 in sorted({c - 1 for c in cols}):     # read_additions takes a zero-based column
        res = rd.read_additions(path, c0)
        ctx.output(f"add{c0}", res)
        ctx.oblige(f"additions[{c0}].shape", tuple(res.shape) == (F, N))
        if tuple(res.shape) != (F, N):
            continue
        for f, fr in enumerate(frames):
            for i in range(N):
                ctx.oblige(f"additions[{c0}][{f},{i}]", O.eq(res[f, i], column(fr, i, c0 + 1)))


def _hoomd_frames(ctx, d, N, F, typeids, shared=False):
    """shared=True: constant topology - every frame refers to ONE int64 typeid array (what a trajectory writer that stores the
    types once hands out)"""
    frames, data = [], []
    one = np.array(typeids, dtype=np.int64)
    for f in range(F):
        pos = ctx.array(f"p{f}", (N, 3))
        box = ctx.array(f"box{f}", (6,))
        step = ctx.real(f"step{f}")
        if ctx.mode != "sym":
            step = int(round(step))
        frames.append(SimpleNamespace(
            configuration=SimpleNamespace(dimensions=d, box=box, step=step),
            particles=SimpleNamespace(N=N, typeid=(one if shared else np.array(typeids)), position=pos)))
        data.append(dict(pos=pos, box=box, step=step))
    return frames, data


def h_gsd(ctx, d, N, F, typeids, dcd, shared=False, twice=False):
    ctx.covers(FUNCS[7], FUNCS[8])
    g = ctx.repo("PyMatterSim.reader.gsd_reader_helper")
    frames, data = _hoomd_frames(ctx, d, N, F, typeids, shared)
    if twice:      # converting the same frame sequence a second time gives the same snapshots
        if dcd:
            g.read_gsd_dcd(frames, SimpleNamespace(read=lambda: (ctx.array("dcd0", (F, N, 3)), None, None)), d)
        else:
            g.read_gsd(frames, d)
    if dcd:
        traj = ctx.array("dcd", (F, N, 3))
        fd = SimpleNamespace(read=lambda: (traj, None, None))
        snaps = g.read_gsd_dcd(frames, fd, d)
    else:
        snaps = g.read_gsd(frames, d)
    ctx.oblige("returns snapshots", snaps is not None)
    if snaps is None:
        return
    ctx.oblige("nsnapshots", snaps.nsnapshots == F and len(snaps.snapshots) == F)
    for f, (fr, sn) in enumerate(zip(data, snaps.snapshots)):
        ctx.output(f"pos{f}", sn.positions)
        ctx.oblige(f"types[{f}]", [int(t) for t in sn.particle_type] == [t + 1 for t in typeids])
        ctx.oblige(f"step[{f}]", O.eq(sn.timestep, fr["step"]))
        ctx.oblige(f"N[{f}]", sn.nparticle == N)
        ctx.oblige(f"pos.shape[{f}]", tuple(sn.positions.shape) == (N, d))
        for a in range(d):
            ctx.oblige(f"box[{f},{a}]", O.eq(sn.boxlength[a], fr["box"][a]))
        src = traj[f] if dcd else fr["pos"]
        for i in range(N):
            for a in range(d):
                ctx.oblige(f"pos[{f},{i},{a}]", O.eq(sn.positions[i, a], src[i, a]))


def h_log(ctx, K, tail):
    """LAMMPS log reader: the *structure* of the log is symbolic - the number of thermo rows of each of the K sections is an
    integer symbol in 1..3 that the engine concretises by forking, so every combination is one explored path; the numeric
    content is concrete (it goes through pandas' C parser).  Every complete section is returned in full, in order."""
    ctx.covers("PyMatterSim.reader.simulation_log.read_lammpslog")
    sl = ctx.repo("PyMatterSim.reader.simulation_log")
    rows = []
    for k in range(K):
        r = ctx.integer(f"rows{k}", lo=1, hi=3)
        rows.append(ctx.eng.concretize_int(r) if ctx.mode == "sym" else max(1, min(3, int(r))))
    cols = [["Step", "Temp", "E_pair"], ["Step", "PotEng", "Press", "Volume"], ["Step", "Temp"]]
    lines = ["LAMMPS (2 Aug 2023)", "units lj", "atom_style atomic", ""]
    want = []
    step = 0
    for k in range(K):
        c = cols[k % len(cols)]
        lines += [f"run {100 * (k + 1)}", "Per MPI rank memory allocation (min/avg/max) = 3.1 | 3.1 | 3.1 Mbytes", "   ".join(c) + " "]
        tab = []
        for j in range(rows[k]):
            vals = [step] + [round(0.5 * (k + 1) + 0.125 * j + 0.25 * m, 6) for m in range(1, len(c))]
            tab.append(vals)
            lines.append("   " + "   ".join(str(v) for v in vals))
            step += 50
        want.append((c, tab))
        lines += [f"Loop time of 0.{k + 1}2 on 1 procs for {100 * (k + 1)} steps with 64 atoms", "", "Performance: 1.0 tau/day", ""]
    if tail:
        lines += ["Total wall time: 0:00:01"]
    path = os.path.join(ctx.tmpdir(), "log.lammps")
    with open(path, "w") as fh:
        fh.write("\n".join(lines) + "\n")
    res = sl.read_lammpslog(path)
    ctx.output("nsections", len(res))
    ctx.oblige(f"every complete section is returned ({K} sections with {rows} rows)", len(res) == K)
    for k, df in enumerate(res[:K]):
        c, tab = want[k]
        ok = list(df.columns) == c and len(df) == len(tab)
        ctx.oblige(f"section {k}: columns and number of rows", ok)
        if ok:
            good = all(abs(float(df[c[m]].values[j]) - float(tab[j][m])) < 1e-9 for j in range(len(tab)) for m in range(len(c)))
            ctx.oblige(f"section {k}: values in full and in order", good)


def cfg_roundtrip(tier, seed):
    N = 2 if tier == "quick" else 3
    return [dict(d=d, N=N, order=list(o)) for d in (2, 3) for o in permutations(range(N))]


def cfg_center(tier, seed):
    out = []
    N = 3
    types = [1, 2, 3]
    # incl. maps whose values are again keys (a relabelled atom must not be relabelled a second time) and a pure swap
    maps = [{"1": 1}, {"2": 1, "3": 2}, {"1": 2, "3": 1}, {"1": 1, "2": 2, "3": 3}, {"3": 5}, {"2": 3, "3": 1}, {"1": 2, "2": 1}]
    perms = list(permutations(range(N)))
    k = 0
    for d in (2, 3):
        for style in ("x", "xs", "xu"):
            for mt in maps:
                for F in (1, 2):
                    k += 1
                    chained = mt in maps[5:] and F == 2 and style in ("x", "xs")     # always part of the quick tier
                    if tier == "quick" and (k + seed) % 3 and not chained:
                        continue
                    orders = [list(perms[(k + f * 2) % len(perms)]) for f in range(F)]
                    out.append(dict(d=d, N=N, F=F, orders=orders, types=types, style=style, moltypes=mt))
    return out


def cfg_columns(tier, seed):
    out = []
    N = 2 if tier == "quick" else 3
    perms = list(permutations(range(N)))
    for d in (2, 3):
        base = 3 + d       # first extra column (1-based)
        for cols in ([base], [base + 1], [base, base + 1], [base + 1, base], [3, base]):
            for F in ((1, 2) if tier == "quick" else (1, 2, 3)):
                orders = [list(perms[(f + len(cols) + d) % len(perms)]) for f in range(F)]
                out.append(dict(d=d, N=N, F=F, orders=orders, types=[1, 2, 1][:N], cols=cols))
    return out


def cfg_gsd(tier, seed):
    out = [dict(d=d, N=2, F=F, typeids=[0, 1], dcd=dcd) for d in (2, 3) for F in (1, 2) for dcd in (False, True)]
    out += [dict(d=2, N=3, F=2, typeids=[0, 2, 1], dcd=dcd, shared=True) for dcd in (False, True)]
    out += [dict(d=3, N=2, F=1, typeids=[1, 0], dcd=False, twice=True), dict(d=2, N=2, F=2, typeids=[0, 1], dcd=True, shared=True, twice=True)]
    return out


HARNESSES = [H("header_roundtrip", h_roundtrip, cfg_roundtrip), H("centertype", h_center, cfg_center),
             H("columns", h_columns, cfg_columns), H("hoomd_frames", h_gsd, cfg_gsd),
             H("lammps_log", h_log, lambda tier, seed: [dict(K=K, tail=t) for K in ((1, 2) if tier == "quick" else (1, 2, 3)) for t in (True, False)])]
