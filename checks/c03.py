"""C03 g(r): every total and partial column equals the normalised pair histogram (DESIGN C03)."""
import ast
import inspect
import itertools
import os
import time
from fractions import Fraction

import numpy as np

from symx import ops as O
from symx.run import H
from checks import common as C

FUNCS = ["PyMatterSim.static.gr.gr.__init__", "PyMatterSim.static.gr.gr.getresults", "PyMatterSim.static.gr.gr.unary",
         "PyMatterSim.static.gr.gr.binary", "PyMatterSim.static.gr.gr.ternary", "PyMatterSim.static.gr.gr.quarternary",
         "PyMatterSim.static.gr.gr.quinary", "PyMatterSim.utils.funcs.nidealfac", "PyMatterSim.utils.pbc.remove_pbc"]
BOUNDS = {
    "quick": "d=2 (and d=3 for K<=2): all real positions, symbolic orthogonal box lengths and bin width with B=int(Lmin/2/delta) "
             "in {1,2}; N=3 particles fully symbolic for K=1..3, ladder families N=K+1 for K=4,5,6; F<=2 frames; periodic and "
             "open masks; selector classification decided for all type pairs 1..K, K=2..5, from the method ASTs",
    "thorough": "as quick plus d=3 for all K (ladders K=4,5 in 3D), triclinic concrete cells, B up to 3, N=4 for K<=3, two frames for K=3..5",
}
STUBS = ["np.histogram -> documented equal-width semantics (right edge of last bin inclusive) as indicator sums",
         "np.rint -> function symbol + lemma instances", "CSV output -> not formatted (the returned DataFrame is checked)"]
ASSUMPTIONS = ["floats modelled as reals", "type ids are 1..K with every type present", "particle number and box constant over frames",
               "int(Lmin/2/delta) concretised by forking on its value (bounded by an assumption on the ratio)"]


def shell_volume(ctx, d, lo, hi):
    pi_ = O.pi(ctx)
    if d == 2:
        return pi_ * (hi * hi - lo * lo)
    return (Fraction(4, 3) if ctx.mode == "sym" else 4.0 / 3) * pi_ * (hi * hi * hi - lo * lo * lo)


def h_gr(ctx, d, N, F, K, types, cell, ppp, Bmax, fixed=0):
    ctx.covers(*FUNCS)
    g = ctx.repo("PyMatterSim.static.gr")
    ru = ctx.repo("PyMatterSim.reader.reader_utils")
    sym = ctx.mode == "sym"
    rows = C.make_cell(ctx, d, cell)
    L = [rows[a][a] for a in range(d)]
    delta = ctx.real("delta", positive=True)
    if not sym and not delta > 0:
        delta = 1.0
    # Lmin/(2 delta) in [1, Bmax+1): the bin count is 1..Bmax
    Lmin = L[0]
    for a in range(1, d):
        Lmin = O.If(O.le(L[a], Lmin), L[a], Lmin)
    ctx.assume(O.And(O.ge(Lmin, 2 * delta), O.lt(Lmin, 2 * delta * (Bmax + 1))))
    fixed_pos = [["1/3", "1/5", "1/7"], ["-2/5", "3/4", "1/2"], ["9/10", "-1/3", "-3/5"], ["-1/7", "-6/5", "4/5"],
                 ["5/4", "7/6", "-1/9"], ["-8/7", "1/11", "6/5"], ["2/9", "-7/4", "1/3"]]
    snaps, poss = [], []
    for f in range(F):
        prow = [[(C.const(ctx, fixed_pos[i][a]) if i < fixed else ctx.real(f"p{f}_{i}_{a}")) for a in range(d)] for i in range(N)]
        poss.append(prow)
        snaps.append(C.snapshot(ctx, ru, f, types, C.farr(ctx, prow), rows))
    S = ru.Snapshots(nsnapshots=F, snapshots=snaps)
    res = g.gr(S, ppp=np.array(ppp), rdelta=delta).getresults()
    cols = list(res.columns)
    B = len(res)
    ctx.oblige("bins in range", 1 <= B <= Bmax)
    # expected columns
    want_cols = ["r", "gr"]
    if 2 <= K <= 5:
        want_cols += [f"gr{a}{a}" for a in range(1, K + 1)] + [f"gr{a}{b}" for a in range(1, K + 1) for b in range(a + 1, K + 1)]
    ctx.oblige("columns", sorted(cols) == sorted(want_cols))
    if sorted(cols) != sorted(want_cols):
        return
    for c in cols:
        ctx.output(c, np.asarray(res[c].values))
    # reference
    V = 1
    for a in range(d):
        V = V * L[a]
    cnt = {t: types.count(t) for t in range(1, K + 1)}
    D2 = [[[C.norm2(C.min_image(ctx, [poss[f][j][a] - poss[f][i][a] for a in range(d)], rows, ppp)) if i != j else None
            for j in range(N)] for i in range(N)] for f in range(F)]
    for k in range(B):
        lo, hi = k * delta, (k + 1) * delta
        ctx.oblige(f"r[{k}] bin centre", O.eq(res["r"].values[k], (lo + hi) / 2))
        shell = shell_volume(ctx, d, lo, hi)

        def inbin(x2):
            last = (k == B - 1)
            upper = O.le(x2, hi * hi) if last else O.lt(x2, hi * hi)
            return O.And(O.ge(x2, lo * lo), upper)

        def count(sel):
            tot = 0
            for f in range(F):
                for i in range(N):
                    for j in range(N):
                        if i != j and sel(types[i], types[j]):
                            c = inbin(D2[f][i][j])
                            tot = tot + (O.If(c, 1, 0) if not isinstance(c, bool) and sym else (1 if c else 0))
            return tot
        Fq = Fraction(1, F) if sym else 1.0 / F
        total = V / (N * N) * Fq * count(lambda a, b: True) / shell
        ctx.oblige(f"gr[{k}]", O.eq(res["gr"].values[k], total))
        if 2 <= K <= 5:
            mix = 0
            for a in range(1, K + 1):
                for b in range(a, K + 1):
                    col = f"gr{a}{b}"
                    # ordered a-b pairs (both orders for a != b give the same count; the definition counts ordered (i in a, j in b))
                    ref = V / (cnt[a] * cnt[b]) * Fq * count(lambda x, y, a=a, b=b: x == a and y == b) / shell
                    ctx.oblige(f"{col}[{k}]", O.eq(res[col].values[k], ref))
                    w = Fraction(cnt[a] * cnt[b], N * N) if sym else cnt[a] * cnt[b] / (N * N)
                    mix = mix + (1 if a == b else 2) * w * res[col].values[k]
            ctx.oblige(f"sum rule[{k}]", O.eq(res["gr"].values[k], mix))


# ---------------------------------------------------------------- selector classification from the AST

def _selectors():
    """(K, column, selector-expression AST) for every partial histogram in gr.binary..quinary"""
    import importlib
    g = importlib.import_module("PyMatterSim.static.gr")
    out = []
    for K, meth in ((2, "binary"), (3, "ternary"), (4, "quarternary"), (5, "quinary")):
        src = inspect.getsource(getattr(g.gr, meth))
        tree = ast.parse("class _X:\n" + src if src.startswith("    ") else src)
        pending = None
        for node in ast.walk(tree):
            pass
        # statements in order: Assign(countvalue, binedge = np.histogram(distance[<sel>], ...)) then AugAssign grresults["grXY"] += countvalue
        body = [n for n in ast.walk(tree) if isinstance(n, (ast.Assign, ast.AugAssign))]
        body.sort(key=lambda n: (n.lineno, n.col_offset))
        for n in body:
            if isinstance(n, ast.Assign) and isinstance(n.value, ast.Call) and getattr(n.value.func, "attr", "") == "histogram":
                arg = n.value.args[0]
                if isinstance(arg, ast.Subscript) and getattr(arg.value, "id", "") == "distance":
                    pending = arg.slice
                else:
                    pending = "ALL"
            elif isinstance(n, ast.AugAssign) and isinstance(n.target, ast.Subscript) and getattr(n.target.value, "id", "") == "grresults":
                col = n.target.slice.value if isinstance(n.target.slice, ast.Constant) else None
                if col and col != "gr" and pending not in (None, "ALL"):
                    out.append((K, col, pending))
                pending = None
    return out


def _sel_to_z3(node, s, dabs):
    import z3
    if isinstance(node, ast.BinOp) and isinstance(node.op, ast.BitAnd):
        return z3.And(_sel_to_z3(node.left, s, dabs), _sel_to_z3(node.right, s, dabs))
    if isinstance(node, ast.BinOp) and isinstance(node.op, ast.BitOr):
        return z3.Or(_sel_to_z3(node.left, s, dabs), _sel_to_z3(node.right, s, dabs))
    if isinstance(node, ast.Compare) and len(node.ops) == 1 and isinstance(node.ops[0], ast.Eq):
        name = node.left.id
        val = node.comparators[0].value
        return {"countsum": s, "countsub": dabs}[name] == val
    raise ValueError("selector shape not recognised: " + ast.dump(node))


def prelude(tier, seed):
    """z3 decides, for all type pairs (a,b) in 1..K: sel_XY(a,b) <=> {a,b} = {X,Y}; so every pair lands in exactly one column"""
    import z3
    t0 = time.time()
    out = dict(name="selector_classification", obligations=0, discharged=0, undecided=0, solver_s=0.0, samples=[],
               violations=[], errors=[], functions=FUNCS[3:7], lemmas=[], wall_s=0.0)
    try:
        sels = _selectors()
    except Exception as e:
        out["samples"].append(dict(note=f"pattern not found - skipped ({e!r})"))
        return [out]
    byK = {}
    for K, col, node in sels:
        byK.setdefault(K, []).append((col, node))
    for K, lst in byK.items():
        want = {f"gr{a}{b}" for a in range(1, K + 1) for b in range(a, K + 1)}
        if {c for c, _ in lst} != want:
            out["samples"].append(dict(note=f"K={K}: columns {sorted(c for c, _ in lst)} differ from expected - skipped"))
            continue
        a, b = z3.Ints("a b")
        s = a + b
        dabs = z3.If(a >= b, a - b, b - a)
        dom = z3.And(a >= 1, a <= K, b >= 1, b <= K)
        for col, node in lst:
            X, Y = int(col[2]), int(col[3])
            try:
                sel = _sel_to_z3(node, s, dabs)
            except ValueError as e:
                out["samples"].append(dict(note=f"{col}: {e} - skipped"))
                continue
            goal = sel == z3.Or(z3.And(a == X, b == Y), z3.And(a == Y, b == X))
            sv = z3.Solver()
            sv.add(dom, z3.Not(goal))
            r = sv.check()
            out["obligations"] += 1
            if r == z3.unsat:
                out["discharged"] += 1
                if len(out["samples"]) < 3:
                    out["samples"].append(dict(obligation=f"K={K} {col}: selector <=> {{a,b}}={{{X},{Y}}} for all a,b in 1..{K}", verdict="unsat",
                                               selector=ast.unparse(node)))
            elif r == z3.sat:
                m = sv.model()
                path = _write_selector_replay(K, col, ast.unparse(node), m[a].as_long(), m[b].as_long())
                out["violations"].append(dict(harness="selector_classification", config=dict(K=K, column=col),
                                              obligation=f"selector {col}", replay=path, exception=None, failed=[col]))
            else:
                out["undecided"] += 1
    out["solver_s"] = out["wall_s"] = time.time() - t0
    return [out]


def _write_selector_replay(K, col, sel, a, b):
    import json
    root = os.path.dirname(os.path.dirname(os.path.abspath(__file__)))
    os.makedirs(os.path.join(root, "replays"), exist_ok=True)
    p = os.path.join(root, "replays", f"C03_selector_K{K}_{col}.json")
    json.dump(dict(property="C03", harness="selector_classification", K=K, column=col, selector=sel, type_pair=[a, b],
                   note="this species pair is classified into the wrong partial column; confirm with a K-species g(r) run"),
              open(p, "w"), indent=1)
    return p


def cfg(tier, seed):
    out = []
    per2, opn2 = [1, 1], [0, 0]
    # fully symbolic, K = 1..3 (N = 3: every composition with all types present)
    for K, tys in ((1, [[1, 1, 1]]), (2, [[1, 2, 1], [2, 2, 1]]), (3, [[1, 2, 3], [3, 1, 2]])):
        for types in tys:
            out.append(dict(d=2, N=3, F=1, K=K, types=types, cell="sym-o", ppp=per2, Bmax=2))
    out.append(dict(d=2, N=3, F=2, K=2, types=[2, 1, 1], cell="sym-o", ppp=per2, Bmax=1, fixed=1))
    out.append(dict(d=2, N=3, F=1, K=2, types=[1, 1, 2], cell="sym-o", ppp=opn2, Bmax=2))
    out.append(dict(d=3, N=3, F=1, K=2, types=[1, 2, 2], cell="sym-o", ppp=[1, 1, 1], Bmax=1))
    out.append(dict(d=3, N=2, F=1, K=1, types=[1, 1], cell="sym-o", ppp=[1, 1, 0], Bmax=2))
    out.append(dict(d=2, N=3, F=1, K=2, types=[1, 2, 1], cell="t-", ppp=per2, Bmax=2))      # triclinic, negative tilt
    # ladders for K = 4, 5, 6: types 1..K once plus one extra particle
    for K in (4, 5, 6):
        base = list(range(1, K + 1))
        for extra, order in ((1, 1), (K, -1)):
            types = (base if order == 1 else base[::-1]) + [extra]
            out.append(dict(d=2, N=K + 1, F=1, K=K, types=types, cell="sym-o", ppp=per2, Bmax=1, fixed=K - 1))
    if tier == "thorough":
        for cell in ("t-", "t+"):
            out.append(dict(d=2, N=3, F=1, K=2, types=[1, 2, 1], cell=cell, ppp=per2, Bmax=2))
        out.append(dict(d=3, N=3, F=1, K=3, types=[1, 2, 3], cell="sym-o", ppp=[1, 1, 1], Bmax=2))
        out.append(dict(d=3, N=3, F=1, K=2, types=[1, 2, 1], cell="t-", ppp=[1, 1, 1], Bmax=1))
        out.append(dict(d=2, N=3, F=1, K=2, types=[1, 2, 1], cell="sym-o", ppp=per2, Bmax=3))
        out.append(dict(d=2, N=4, F=1, K=2, types=[1, 2, 1, 2], cell="sym-o", ppp=per2, Bmax=1, fixed=1))
        out.append(dict(d=2, N=4, F=2, K=3, types=[1, 2, 3, 2], cell="sym-o", ppp=per2, Bmax=2, fixed=2))
        out.append(dict(d=3, N=4, F=1, K=2, types=[1, 2, 2, 1], cell="t+", ppp=[1, 1, 1], Bmax=1, fixed=2))
        out.append(dict(d=3, N=3, F=2, K=3, types=[3, 1, 2], cell="sym-o", ppp=[1, 0, 1], Bmax=1, fixed=1))
        for K in (4, 5):
            base = list(range(1, K + 1))
            out.append(dict(d=3, N=K + 1, F=1, K=K, types=base + [2], cell="sym-o", ppp=[1, 1, 1], Bmax=1, fixed=K - 1))
            out.append(dict(d=2, N=K + 1, F=2, K=K, types=base[::-1] + [1], cell="sym-o", ppp=per2, Bmax=1, fixed=K))
    return out


HARNESSES = [H("gr_columns", h_gr, cfg, timeout_ms=30000, validate_timeout_ms=3000)]
